"""Finding 3: ICPertFLRW.Kdown3(sol=LCDM) is not the extrinsic curvature of
ICPertFLRW.gammadown3(sol=LCDM).

With zero shift and unit lapse K_ij = -(1/2) d/dt gamma_ij.  For sol=EdS this
holds to rounding, for sol=LCDM (the module's documented default use) it does
not: the perturbation part of K_ij differs from -(1/2) d_t gamma_ij by 0.3% at
t=3000 and 10% at t=1e4, because LCDM.fL (documented as
"d ln(delta) / d ln(a)") returns the approximation Omega_m**(6/11) rather than
the growth rate of the LCDM growing mode (which Szekeres.py implements exactly).
"""
import numpy as np
import aurel
from aurel.solutions import ICPertFLRW as IC, LCDM, EdS

N, L = 8, 2000.
grid = {'Nx': N, 'Ny': N, 'Nz': N, 'xmin': 0., 'ymin': 0., 'zmin': 0.,
        'dx': L / N, 'dy': L / N, 'dz': L / N}
fd = aurel.FiniteDifference(grid, boundary='periodic', fd_order=4,
                            verbose=False)
x, y, z = fd.cartesian_coords
Rc = IC.Rc_func(x, y, z, (1e-3, 2e-3, -1e-3), (L, L, L))


def mismatch(sol, t0):
    h = 1e-4 * t0
    # 4th-order central difference in time of the module's own metric
    gam = lambda tt: IC.gammadown3(sol, fd, tt, Rc)
    dtg = (-gam(t0 + 2 * h) + 8 * gam(t0 + h)
           - 8 * gam(t0 - h) + gam(t0 - 2 * h)) / (12 * h)
    K = IC.Kdown3(sol, fd, t0, Rc)
    Kbg = -sol.a(t0)**2 * sol.Hprop(t0) * np.eye(3)[:, :, None, None, None]
    return np.max(np.abs(K + dtg / 2)) / np.max(np.abs(K - Kbg))


worst = 0.0
for sol, t0 in [(EdS, 300.), (LCDM, 300.), (LCDM, 3000.), (LCDM, 1e4)]:
    m = mismatch(sol, t0)
    print(sol.__name__, t0, 'max|K + dt gamma/2| / max|K - K_background| =', m)
    worst = max(worst, m)
assert worst < 1e-6, (
    "ICPertFLRW.Kdown3 with sol=LCDM is not -(1/2) d_t of "
    f"ICPertFLRW.gammadown3: relative mismatch of the perturbation {worst:.2e}")
print('OK')
