"""Finding 1: Non_diagonal.Tdown4 does not satisfy G_ab = kappa T_ab to rounding
accuracy: the isotropic pressure carries the truncated constant 0.0833333
instead of 1/12 (relative error 4e-7 in p, ~3e-7 of max|G_ab|), while every
other bundled solution satisfies Einstein's equations to ~1e-15.
"""
import numpy as np
import sympy as sp
from aurel.solutions import Non_diagonal as ND

t, x, y, z = sp.symbols('t x y z', real=True)
X = [t, x, y, z]


def einstein(g):
    ginv = g.inv()
    Gam = [[[sum(ginv[a, d] * (sp.diff(g[d, b], X[c]) + sp.diff(g[d, c], X[b])
                               - sp.diff(g[b, c], X[d])) for d in range(4)) / 2
             for c in range(4)] for b in range(4)] for a in range(4)]

    def ric(b, c):
        r = 0
        for a in range(4):
            r += sp.diff(Gam[a][b][c], X[a]) - sp.diff(Gam[a][b][a], X[c])
            for d in range(4):
                r += Gam[a][a][d] * Gam[d][b][c] - Gam[a][c][d] * Gam[d][b][a]
        return r
    R = sp.Matrix(4, 4, ric)
    Rs = sum(ginv[a, b] * R[a, b] for a in range(4) for b in range(4))
    return R - Rs * g / 2


g = ND.gdown4(t, x, y, z, analytical=True)
G = sp.lambdify(X, einstein(g), 'mpmath')
worst = 0.0
for pt in [(0.9, 1.5, 0.2, 6.1), (1.3, 0.4, -0.7, 0.9), (7.5, -2.1, 3.3, -4.2),
           (100., 0.1, 0.1, 0.1)]:
    o = np.ones((1, 1, 1))
    Tn = ND.Tdown4(pt[0], o * pt[1], o * pt[2], o * pt[3])[..., 0, 0, 0]
    Gs = np.array(G(*pt).tolist(), dtype=float)
    res = np.max(np.abs(Gs - ND.kappa * Tn)) / np.max(np.abs(Gs))
    print(pt, 'max|G - kappa T| / max|G| =', res)
    worst = max(worst, res)
assert worst < 1e-11, (
    "Non_diagonal.Tdown4 violates G_ab = kappa T_ab at relative level "
    f"{worst:.2e} (expected rounding level ~1e-15): pressure uses the "
    "truncated constant 0.0833333 instead of 1/12")
print('OK')
