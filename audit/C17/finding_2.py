"""Finding 2: the module attribute `Lambda` is not the solution's cosmological
constant.

LCDM.Lambda and EdS.Lambda are the cosmological constants of those solutions and
the documentation tells users to pass `Lambda=sol.Lambda` to AurelCore
(docs/notebooks: "Need to pass Lambda=sol.Lambda if != 0.0", with Non_diagonal
and Szekeres listed as possible `sol`).  But
  * Non_diagonal.Lambda == 10.0 is the *wavelength* of the conformal factor;
    its Tdown4 solves G_ab = kappa T_ab with zero cosmological constant, so
    G_ab + sol.Lambda g_ab = kappa T_ab is violated at O(1);
  * Szekeres (the Lambda-Szekeres solution, Lambda = LCDM.Lambda != 0) exposes no
    `Lambda` at all, so sol.Lambda raises / a default of 0 violates Einstein's
    equations at late times.
"""
import numpy as np
import sympy as sp
from aurel.solutions import Non_diagonal, Szekeres

t, x, y, z = sp.symbols('t x y z', real=True)
X = [t, x, y, z]


def einstein(g):
    ginv = g.inv()
    Gam = [[[sum(ginv[a, d] * (sp.diff(g[d, b], X[c]) + sp.diff(g[d, c], X[b])
                               - sp.diff(g[b, c], X[d])) for d in range(4)) / 2
             for c in range(4)] for b in range(4)] for a in range(4)]

    def ric(b, c):
        r = 0
        for a in range(4):
            r += sp.diff(Gam[a][b][c], X[a]) - sp.diff(Gam[a][b][a], X[c])
            for d in range(4):
                r += Gam[a][a][d] * Gam[d][b][c] - Gam[a][c][d] * Gam[d][b][a]
        return r
    R = sp.Matrix(4, 4, ric)
    Rs = sum(ginv[a, b] * R[a, b] for a in range(4) for b in range(4))
    return R - Rs * g / 2


def residual(mod, pt):
    """max |G_ab + Lambda g_ab - kappa T_ab| / max|G_ab| with Lambda = mod.Lambda
    (0 if the module defines none)."""
    Lam = getattr(mod, 'Lambda', 0.0)
    g = mod.gdown4(t, x, y, z, analytical=True)
    Gs = np.array(sp.lambdify(X, einstein(g), 'mpmath')(*pt).tolist(), dtype=float)
    o = np.ones((1, 1, 1))
    args = (pt[0], o * pt[1], o * pt[2], o * pt[3])
    gn = mod.gdown4(*args)[..., 0, 0, 0]
    if hasattr(mod, 'Tdown4'):
        Tn = mod.Tdown4(*args)[..., 0, 0, 0]
    else:  # dust comoving with the synchronous coordinates
        Tn = np.zeros((4, 4))
        Tn[0, 0] = mod.rho(*args)[0, 0, 0]
    return Lam, np.max(np.abs(Gs + Lam * gn - 8 * np.pi * Tn)) / np.max(np.abs(Gs))


errors = []
Lam, r = residual(Non_diagonal, (1.3, 0.4, -0.7, 0.9))
print('Non_diagonal: Lambda attribute =', Lam, ' Einstein residual =', r)
if r > 1e-5:
    errors.append(f"Non_diagonal.Lambda = {Lam} is not its cosmological "
                  f"constant (residual of G+Lambda g-kappa T: {r:.2e})")
Lam, r = residual(Szekeres, (3000., 1.5, 0.2, 6.1))
print('Szekeres: Lambda attribute =', getattr(Szekeres, 'Lambda', None),
      ' Einstein residual =', r)
if r > 1e-5:
    errors.append("Szekeres exposes no (correct) cosmological constant "
                  f"`Lambda` (residual with Lambda={Lam}: {r:.2e})")
assert not errors, "; ".join(errors)
print('OK')
