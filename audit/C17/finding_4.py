"""Finding 4: the identically-zero fields (shift, K_ij of static solutions,
vacuum T_ab, comoving u^a) hard-code `Nx, Ny, Nz = np.shape(x)`, so they raise
ValueError at a single position (scalar x, y, z) or on 1D/2D coordinate arrays,
whereas the metric / lapse / Kretschmann functions of the very same modules
accept those positions.  E.g. Schwarzschild_isotropic.gdown4(t, 1., 2., 3.)
and .Kretschmann(t, 1., 2., 3.) work but .Kdown3 / .Tdown4 / .betaup3 / .data
raise "not enough values to unpack".
"""
import numpy as np
from aurel.solutions import (LCDM, Conformally_flat, EdS, Harvey_Tsoubelis,
                             Schwarzschild_isotropic, Szekeres)

cases = {'scalar': (1.5, 0.3, -0.7),
         '1d': (np.linspace(1, 2, 4),) * 3,
         '2d': (np.full((3, 2), 1.2),) * 3}
checks = [(Schwarzschild_isotropic, 'betaup3', (3,)),
          (Schwarzschild_isotropic, 'Kdown3', (3, 3)),
          (Schwarzschild_isotropic, 'Tdown4', (4, 4)),
          (Harvey_Tsoubelis, 'betaup3', (3,)),
          (Harvey_Tsoubelis, 'Tdown4', (4, 4)),
          (Harvey_Tsoubelis, 'uup4', (4,)),
          (Conformally_flat, 'Kdown3', (3, 3)),
          (Szekeres, 'betaup3', (3,)),
          (LCDM, 'betaup3', (3,)),
          (EdS, 'betaup3', (3,))]
failures = []
for cname, (x, y, z) in cases.items():
    for mod, fname, lead in checks:
        name = mod.__name__.split('.')[-1]
        # the metric of the same module is fine with this position
        g = mod.gammadown3(2.0, x, y, z)
        assert np.shape(g) == (3, 3) + np.shape(x)
        try:
            out = getattr(mod, fname)(2.0, x, y, z)
            if np.shape(out) != lead + np.shape(x):
                failures.append(f"{name}.{fname}[{cname}]: shape {np.shape(out)}")
        except ValueError as e:
            failures.append(f"{name}.{fname}[{cname}]: {e}")
    for mod in (Schwarzschild_isotropic, Harvey_Tsoubelis):
        try:
            mod.data(2.0, x, y, z)
        except ValueError as e:
            failures.append(f"{mod.__name__.split('.')[-1]}.data[{cname}]: {e}")
for f in failures:
    print(f)
assert not failures, (f"{len(failures)} calls fail at positions the module's "
                      "own metric accepts, e.g. " + failures[0])
print('OK')
