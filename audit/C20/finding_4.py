"""Finding 4: maths.sYlm_reconstruct does not accept inputs that sYlm and
sYlm_coefficients accept:
 (a) a coefficient set holding exactly the existing modes |s| <= l <= lmax
     raises KeyError((0, 0)) because the non-existent modes l < |s| are
     demanded from the dictionary;
 (b) broadcastable (open-mesh) theta/phi grids raise a ValueError, so
     decomposition followed by synthesis fails on the very same grids."""
import numpy as np
from aurel import maths

s, lmax = -2, 4
x, w = np.polynomial.legendre.leggauss(lmax + 2)
theta = np.arccos(x)
nphi = 2 * lmax + 3
phi = 2 * np.pi * np.arange(nphi) / nphi
T, P = np.meshgrid(theta, phi, indexing="ij")
rng = np.random.default_rng(3)
alm = {(el, m): rng.normal() + 1j * rng.normal()
       for el in range(abs(s), lmax + 1) for m in range(-el, el + 1)}
expected = sum(a * maths.sYlm(s, el, m, T, P) for (el, m), a in alm.items())

msg = []
try:
    f = maths.sYlm_reconstruct(s, lmax, alm, T, P)
    assert np.allclose(f, expected, atol=1e-12)
except KeyError as e:
    msg.append(f"(a) band-limited set with modes l>=|s| only: KeyError{e.args}")

full = dict(alm)
for el in range(abs(s)):
    for m in range(-el, el + 1):
        full[el, m] = 0.0
to, po = theta[:, None], phi[None, :]
coef = maths.sYlm_coefficients(s, lmax, expected, to, po, w[:, None],
                               2 * np.pi / nphi)
assert max(abs(coef[k] - full[k]) for k in full) < 1e-12  # analysis is fine
try:
    f = maths.sYlm_reconstruct(s, lmax, coef, to, po)
    assert f.shape == expected.shape and np.allclose(f, expected, atol=1e-12)
except ValueError as e:
    msg.append(f"(b) open-mesh theta/phi: ValueError({e})")

assert not msg, "sYlm_reconstruct rejects valid input:\n  " + "\n  ".join(msg)
print("ok")
