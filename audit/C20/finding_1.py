"""Finding 1: maths.sYlm loses all accuracy for l >~ 45 and returns inf/nan
for l >= 86, so the harmonics are not orthonormal for every degree offered
(lmax is a free integer option of AurelCore / sYlm_coefficients)."""
import warnings
import numpy as np
from aurel import maths

warnings.simplefilter("ignore")


def gauss_grid(L):
    """Quadrature exact for products of two harmonics of degree <= L."""
    x, w = np.polynomial.legendre.leggauss(L + 3)
    theta = np.arccos(x)
    nphi = 2 * L + 3
    phi = 2 * np.pi * np.arange(nphi) / nphi
    T, P = np.meshgrid(theta, phi, indexing="ij")
    W = w[:, None] * np.ones_like(P) * (2 * np.pi / nphi)
    return T, P, W


problems = []
for s in (-2, 0, 2):
    for el in (8, 20, 48, 56, 64, 90, 120):
        T, P, W = gauss_grid(el)
        for m in (0, 2, el):
            Y = maths.sYlm(s, el, m, T, P)
            norm = np.sum(np.abs(Y) ** 2 * W)
            # orthogonal to the neighbouring degree, same m
            Y2 = maths.sYlm(s, el - 1, min(m, el - 1), T, P)
            if min(m, el - 1) == m:
                cross = abs(np.sum(np.conj(Y2) * Y * W))
            else:
                cross = 0.0
            if not (np.isfinite(norm) and abs(norm - 1) < 1e-6
                    and cross < 1e-6):
                problems.append(f"s={s} l={el} m={m}: <Y,Y>={norm:.6g}, "
                                f"<Y_(l-1),Y_l>={cross:.3g}")

assert not problems, (
    "sYlm is not orthonormal at high degree:\n  " + "\n  ".join(problems))
print("ok")
