"""Finding 5: numerical.interpolate (default method 'linear') is not exact at
grid nodes when a NEIGHBOURING node holds a non-finite value (e.g. an excised
/ NaN-masked puncture): the zero interpolation weight is multiplied with
NaN/inf, so finite node values are returned as NaN."""
import warnings
import numpy as np
from aurel import numerical

warnings.simplefilter("ignore")
x = np.linspace(-1, 1, 9)
X, Y, Z = np.meshgrid(x, x, x, indexing="ij")
f = 1 + 2 * X - 3 * Y + 0.5 * Z + X * Y * Z
msg = []
for bad in (np.nan, np.inf):
    g = f.copy()
    g[4, 4, 4] = bad
    out = numerical.interpolate(g, (x, x, x), (X, Y, Z), method="linear")
    finite_nodes = np.isfinite(g)
    with np.errstate(invalid="ignore"):
        close = np.isclose(out, g, rtol=1e-12, atol=0)
    wrong = finite_nodes & ~close
    if wrong.any():
        msg.append(f"data[4,4,4]={bad}: {wrong.sum()} finite grid nodes are "
                   f"returned as {out[wrong][0]} (e.g. node "
                   f"{tuple(int(i) for i in np.argwhere(wrong)[0])})")
assert not msg, ("interpolation is not exact at grid nodes next to a "
                 "non-finite value:\n  " + "\n  ".join(msg))
print("ok")
