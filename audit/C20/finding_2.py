"""Finding 2: numerical.interpolate with the spline methods ('slinear',
'cubic', 'quintic') is not exact at grid nodes / for trilinear fields and is
not scale covariant: small-amplitude fields are interpolated to exactly 0.
AurelCore.Psi4_lm(interp_method='cubic') then returns 0 for every mode."""
import warnings
import numpy as np
from aurel import numerical, maths, core, finitedifference

warnings.simplefilter("ignore")
problems = []

# --- (a) node exactness and trilinear exactness, independent of amplitude
x = np.linspace(-1, 1, 17)
y = np.linspace(-2, 2, 15)
z = np.linspace(0, 3, 13)
X, Y, Z = np.meshgrid(x, y, z, indexing="ij")
lin = 1 + 2 * X - 3 * Y + 0.5 * Z
rng = np.random.default_rng(0)
tp = (rng.uniform(-1, 1, 40), rng.uniform(-2, 2, 40), rng.uniform(0, 3, 40))
lin_tp = 1 + 2 * tp[0] - 3 * tp[1] + 0.5 * tp[2]
for method in ("linear", "slinear", "pchip", "cubic", "quintic"):
    for amp in (1.0, 1e-8, 1e-10):
        vn = numerical.interpolate(amp * lin, (x, y, z), (X, Y, Z),
                                   method=method)
        en = np.abs(vn - amp * lin).max() / amp
        vt = numerical.interpolate(amp * lin, (x, y, z), tp, method=method)
        et = np.abs(vt - amp * lin_tp).max() / amp
        if en > 1e-9 or et > 1e-9:
            problems.append(f"{method:8s} amp={amp:g}: rel. error at nodes "
                            f"{en:.2e}, for a linear field {et:.2e}")

# --- (b) end to end: pure -2Y22 of amplitude 1e-9 on the extraction sphere
N, L = 24, 2.0
dx = 2 * L / (N - 1)
param = dict(xmin=-L, ymin=-L, zmin=-L, dx=dx, dy=dx, dz=dx, Nx=N, Ny=N, Nz=N)
fd = finitedifference.FiniteDifference(param, verbose=False)
res = {}
for amp in (1.0, 1e-9):
    c = core.AurelCore(fd, verbose=False, lmax=2, interp_method="cubic")
    psi = amp * maths.sYlm(-2, 2, 2, fd.theta, fd.phi)
    c.data["Weyl_Psi4r"] = psi.real.copy()
    c.data["Weyl_Psi4i"] = psi.imag.copy()
    out = c["Psi4_lm"]
    res[amp] = out[list(out)[0]][2, 2] / amp
if abs(res[1e-9] - res[1.0]) > 1e-6:
    problems.append(f"Psi4_lm(2,2)/amp with interp_method='cubic': "
                    f"amp=1 -> {res[1.0]:.6f}, amp=1e-9 -> {res[1e-9]:.6f}")

assert not problems, ("spline interpolation is amplitude dependent / inexact:"
                      "\n  " + "\n  ".join(problems))
print("ok")
