"""Finding 3: AurelCore['Psi4_lm'] is history dependent.  lmax, center,
extract_radii and interp_method are documented as attributes that control the
decomposition ("Control with AurelCore.lmax, center, extract_radii, and
interp_method"), but once Psi4_lm has been requested, changing them has no
effect: the stale result for the OLD sphere is returned silently."""
import numpy as np
from aurel import maths, core, finitedifference

N, L = 24, 2.0
dx = 2 * L / (N - 1)
param = dict(xmin=-L, ymin=-L, zmin=-L, dx=dx, dy=dx, dz=dx, Nx=N, Ny=N, Nz=N)
fd = finitedifference.FiniteDifference(param, verbose=False)

new_center = (0.4, -0.3, 0.2)
new_radius = 1.0
# field = pure -2Y_{3,1} around new_center
_, th, ph = fd.cartesian_to_spherical(
    fd.x - new_center[0], fd.y - new_center[1], fd.z - new_center[2])
psi = maths.sYlm(-2, 3, 1, th, ph)


def make():
    c = core.AurelCore(fd, verbose=False, lmax=2)   # old settings
    c.data["Weyl_Psi4r"] = psi.real.copy()
    c.data["Weyl_Psi4i"] = psi.imag.copy()
    return c


def configure(c):
    c.lmax = 3
    c.center = new_center
    c.extract_radii = [new_radius]


# fresh object configured before the first request
a = make()
configure(a)
fresh = a["Psi4_lm"]

# same object, same final configuration, but Psi4_lm was requested earlier
b = make()
_ = b["Psi4_lm"]
configure(b)
later = b["Psi4_lm"]

assert list(fresh) == [new_radius]
assert abs(fresh[new_radius][3, 1] - 1) < 0.05, fresh[new_radius][3, 1]
msg = []
if list(later) != [new_radius]:
    msg.append(f"radii returned {list(later)} instead of {[new_radius]}")
r0 = list(later)[0]
if (3, 1) not in later[r0]:
    msg.append("l=3 modes missing although lmax=3 "
               f"(max l present: {max(k[0] for k in later[r0])})")
else:
    if abs(later[r0][3, 1] - fresh[new_radius][3, 1]) > 1e-12:
        msg.append("amplitude differs from fresh computation")
assert not msg, ("Psi4_lm ignores lmax/center/extract_radii set after a "
                 "previous request: " + "; ".join(msg))
print("ok")
