"""Finding 2: boundary='periodic' fails (IndexError) on an axis that has fewer
points than the stencil half-width (N < fd_order/2), e.g. the 1-point axis of a
plane-symmetric / dimensionally reduced periodic simulation.

The periodic derivative is perfectly defined there (indices wrap around; on a
1-point axis every derivative is 0).  fd_order=2 handles it, fd_order=4, 6, 8
raise IndexError from inside fd_map, so no Christoffel symbol, covariant
derivative, divergence, curl or Lie derivative can be computed on such a grid.
"""
import numpy as np
import aurel

CENTERED = {2: [-1/2, 0, 1/2],
            4: [1/12, -2/3, 0, 2/3, -1/12],
            6: [-1/60, 3/20, -3/4, 0, 3/4, -3/20, 1/60],
            8: [1/280, -4/105, 1/5, -4/5, 0, 4/5, -1/5, 4/105, -1/280]}


def periodic_reference(f, order, dz):
    """Centered stencil along the last axis with modular (periodic) indexing."""
    m = order // 2
    out = np.zeros_like(f)
    Nz = f.shape[2]
    for k in range(Nz):
        for s, c in zip(range(-m, m + 1), CENTERED[order]):
            out[:, :, k] += c * f[:, :, (k + s) % Nz] / dz
    return out


failures = []
for order in [2, 4, 6, 8]:
    for Nz in [1, 2, 3]:
        N = 16
        dx = 1.0 / N
        param = {'Nx': N, 'Ny': N, 'Nz': Nz, 'xmin': 0., 'ymin': 0., 'zmin': 0.,
                 'dx': dx, 'dy': dx, 'dz': dx}
        fd = aurel.FiniteDifference(param, boundary='periodic',
                                    fd_order=order, verbose=False)
        rng = np.random.default_rng(0)
        f = (np.sin(2*np.pi*fd.x)*np.cos(2*np.pi*fd.y)
             + 0.1*rng.standard_normal(fd.x.shape))
        try:
            dz = fd.d3z(f)
            ref = periodic_reference(f, order, dx)
            if dz.shape != f.shape or not np.allclose(dz, ref, atol=1e-10):
                failures.append(f"fd_order={order}, Nz={Nz}: wrong values")
        except Exception as e:  # noqa
            failures.append(f"fd_order={order}, Nz={Nz}: "
                            f"{type(e).__name__}: {e}")

# Same thing seen from AurelCore: plane-symmetric conformally flat metric,
# one point along z, periodic box
N = 16
dx = 1.0 / N
param = {'Nx': N, 'Ny': N, 'Nz': 1, 'xmin': 0., 'ymin': 0., 'zmin': 0.,
         'dx': dx, 'dy': dx, 'dz': dx}
fd = aurel.FiniteDifference(param, boundary='periodic', fd_order=4,
                            verbose=False)
rel = aurel.AurelCore(fd, verbose=False)
psi4 = (1 + 0.1*np.sin(2*np.pi*fd.x)*np.cos(2*np.pi*fd.y))**4
for k in ['gxx', 'gyy', 'gzz']:
    rel.data[k] = psi4.copy()
rel.freeze_data()
try:
    G = rel['s_Gamma_udd3']
    # d_z gamma = 0 -> Gamma^z_zz = 0, Gamma^x_zz = -1/2 g^xx d_x g_zz
    assert np.allclose(G[2, 2, 2], 0)
except Exception as e:  # noqa
    failures.append("AurelCore.s_Gamma_udd3 on a (16,16,1) periodic grid, "
                    f"fd_order=4: {type(e).__name__}: {e}")

for m in failures:
    print("FAIL", m)
assert not failures, (f"{len(failures)} periodic small-axis cases fail, first: "
                      + failures[0])
print("OK")
