"""Finding 3: with boundary='symmetric' every component of every vector/tensor is
mirrored with EVEN parity, so derivatives of vector/tensor fields do not converge
at a reflection-symmetry boundary (O(1) error, independent of resolution).

Under a reflection x -> -x a scalar is even, but the normal component V^x of a
vector (and T^{xy}, beta^x, g_xy, K_xy ...) is odd.  d3_rank1tensor /
d3_rank2tensor apply the even mirror of d3_symmetric to all components, so e.g.
d_x V^x is forced to 0 on the symmetry plane.  Divergence, covariant derivative,
Lie derivative (d_i beta^j!) and Christoffel symbols (off-diagonal metric) are
then wrong on the boundary for every reflection-symmetric configuration with a
non-trivial vector or off-diagonal tensor.
"""
import numpy as np
import aurel

errs = {}
for N in [17, 33]:
    L = np.pi
    dx = L/(N - 1)
    param = {'Nx': N, 'Ny': N, 'Nz': N, 'xmin': 0., 'ymin': 0., 'zmin': 0.,
             'dx': dx, 'dy': dx, 'dz': dx}
    fd = aurel.FiniteDifference(param, boundary='symmetric', fd_order=4,
                                verbose=False)
    rel = aurel.AurelCore(fd, verbose=False)   # flat space, zero shift
    x, y, z = fd.x, fd.y, fd.z
    # Reflection symmetric about all six faces x,y,z = 0, pi:
    # scalar: even ; V^x odd in x, even in y,z ; V^y odd in y ...
    s = np.cos(x)*np.cos(y)*np.cos(z)
    V = np.array([np.sin(x)*np.cos(y)*np.cos(z),
                  np.cos(x)*np.sin(y)*np.cos(z),
                  np.cos(x)*np.cos(y)*np.sin(z)])   # = -grad(s)
    # scalar derivative: fine
    e_scal = np.max(np.abs(rel.s_covd(s, '') + V))
    # divergence of the vector: exact = 3 cos cos cos
    e_div = np.max(np.abs(rel.s_div(V, 'u') - 3*s))
    # Lie derivative of the scalar-gradient one-form along beta = V
    rel2 = aurel.AurelCore(fd, verbose=False)
    rel2.data['betaup3'] = V.copy()
    rel2.freeze_data()
    # L_beta s with weight 1: beta^i d_i s + s d_i beta^i
    exact = -(V[0]**2 + V[1]**2 + V[2]**2) + 3*s*s
    e_lie = np.max(np.abs(rel2.Lie_beta(s, '', weight=1) - exact))
    errs[N] = (e_scal, e_div, e_lie)
    print(f"N={N}: scalar gradient err {e_scal:.2e}, s_div err {e_div:.2e}, "
          f"weighted Lie err {e_lie:.2e}")

assert errs[33][0] < errs[17][0]/10, "scalar gradient should converge"
assert errs[33][1] < 1e-3 and errs[33][1] < errs[17][1]/10, (
    "s_div of a reflection-symmetric vector does not converge with "
    f"boundary='symmetric': max error {errs[17][1]:.2f} (N=17) -> "
    f"{errs[33][1]:.2f} (N=33)")
assert errs[33][2] < 1e-3, (
    "Lie_beta(weight=1) does not converge with boundary='symmetric': "
    f"{errs[33][2]:.2f}")
print("OK")
