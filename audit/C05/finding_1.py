"""Finding 1: s_curl (curl w.r.t. the SPATIAL metric) depends on the lapse and
the shift, loses all accuracy when alpha << |beta| and is NaN where alpha == 0.

The curl eps_{cd(a} D^c f_{b)}^d only involves gamma_ij.  AurelCore.s_curl builds
eps^{cd}_a through the 4D route  g^{ae} g^{bf} n^d eps_{defc}  (gup4, nup4,
sqrt(-gdet)), i.e. it divides by alpha^2 several times and relies on the
cancellation of beta^i beta^j / alpha^2 terms.
"""
import numpy as np
import aurel

N = 12
dx = 1.0 / N
param = {'Nx': N, 'Ny': N, 'Nz': N, 'xmin': 0.1, 'ymin': -0.2, 'zmin': 0.3,
         'dx': dx, 'dy': dx, 'dz': dx}
fd = aurel.FiniteDifference(param, fd_order=4, verbose=False)
x, y, z = fd.x, fd.y, fd.z

# smooth, non-flat spatial metric
gam = np.zeros((3, 3) + x.shape)
gam[0, 0] = 1.0 + 0.1*np.sin(x + 2*y)*np.cos(z)
gam[1, 1] = 1.3 + 0.1*np.cos(2*x)*np.sin(y - z)
gam[2, 2] = 0.8 + 0.1*np.sin(x)*np.sin(y)
gam[0, 1] = gam[1, 0] = 0.1*np.sin(y*z + x)
gam[0, 2] = gam[2, 0] = 0.1*np.cos(x - z)
gam[1, 2] = gam[2, 1] = 0.1*np.sin(x + y + z)
# smooth shift, |beta| ~ 0.1 - 0.3
beta = np.array([0.1*np.sin(y + z) + 0.2, 0.2*np.cos(x*z), 0.1*np.sin(x + y - z)])
# smooth symmetric rank-2 test tensor (indices down)
f = np.array([[np.sin(x + i*y + j*z) + np.sin(x + j*y + i*z) + (i + j)*np.cos(y*z)
               for j in range(3)] for i in range(3)])


def curl(alpha=None, shift=None):
    rel = aurel.AurelCore(fd, verbose=False)
    rel.data['gammadown3'] = gam.copy()
    if alpha is not None:
        rel.data['alpha'] = alpha
    if shift is not None:
        rel.data['betaup3'] = shift.copy()
    rel.freeze_data()
    return rel.s_curl(f.copy(), 'dd')


# reference: same library, geodesic slicing (alpha = 1, beta = 0)
ref = curl()
scale = np.max(np.abs(ref))

# (a) independent check of the reference with the purely spatial formula
rel = aurel.AurelCore(fd, verbose=False)
rel.data['gammadown3'] = gam.copy()
rel.freeze_data()
LCuud = np.einsum('ci..., dj..., ija... -> cda...', rel['gammaup3'],
                  rel['gammaup3'], rel.levicivita_down3())
spatial = np.einsum('cda..., cbd... -> ab...', LCuud, rel.s_covd(f, 'dd'))
spatial = 0.5*(spatial + np.swapaxes(spatial, 0, 1))
assert np.max(np.abs(spatial - ref)) < 1e-12*scale, "reference curl inconsistent"

msgs = []
# (b) a small (collapsed) lapse together with an O(0.1) shift
for a in [1e-3, 1e-4, 1e-5]:
    c = curl(alpha=np.full(x.shape, a), shift=beta)
    e = np.max(np.abs(c - ref))/scale
    print(f"alpha = {a:.0e}: relative change of s_curl = {e:.3e}")
    if not e < 1e-9:
        msgs.append(f"alpha={a:.0e}: s_curl changed by {e:.2e} (relative)")

# (c) lapse exactly zero at one grid point (puncture)
al = np.ones(x.shape)
al[5, 6, 7] = 0.0
with np.errstate(all='ignore'):
    c = curl(alpha=al, shift=beta)
val = c[:, :, 5, 6, 7]
print("curl where alpha == 0:\n", val, "\nexpected:\n", ref[:, :, 5, 6, 7])
if not (np.all(np.isfinite(val))
        and np.max(np.abs(val - ref[:, :, 5, 6, 7])) < 1e-9*scale):
    msgs.append("alpha == 0 at a point: s_curl is not the spatial curl there "
                f"(got {val[0]})")

assert not msgs, ("s_curl of a spatial tensor depends on lapse/shift: "
                  + "; ".join(msgs))
print("OK")
