"""Finding 4: rank-2 "array_like" input (nested list / tuple of component arrays)
is rejected with a TypeError by s_covd, s_div, s_curl and Lie_beta, although the
docstrings declare f as array_like and rank-1 lists [fx, fy, fz] work.

FiniteDifference.map2 / map3 index the input as f[k, j], which only works on an
ndarray; map1 uses f[j] and therefore accepts lists.
"""
import numpy as np
import aurel

N = 8
param = {'Nx': N, 'Ny': N, 'Nz': N, 'xmin': 0., 'ymin': 0., 'zmin': 0.,
         'dx': 0.1, 'dy': 0.1, 'dz': 0.1}
fd = aurel.FiniteDifference(param, verbose=False)
rel = aurel.AurelCore(fd, verbose=False)
x, y, z = fd.x, fd.y, fd.z
rel.data['gxx'] = 1 + 0.1*np.sin(x + y)
rel.data['betaup3'] = np.array([0.1*np.sin(y), 0.2*np.cos(z), 0.1*x])
rel.freeze_data()

comp = [[np.sin(x + i*y + j*z) for j in range(3)] for i in range(3)]  # nested
arr = np.array(comp)
vec = [np.sin(x*y), np.cos(y + z), z*x]                               # rank 1

# rank-1 lists are accepted
assert np.allclose(rel.s_covd(vec, 'u'), rel.s_covd(np.array(vec), 'u'))
assert np.allclose(rel.Lie_beta(vec, 's_d', weight=1),
                   rel.Lie_beta(np.array(vec), 's_d', weight=1))

calls = {
    "s_covd(f, 'dd')": lambda f: rel.s_covd(f, 'dd'),
    "s_covd(f, 'ud')": lambda f: rel.s_covd(f, 'ud'),
    "s_div(f, 'uu')": lambda f: rel.s_div(f, 'uu'),
    "s_curl(f, 'dd')": lambda f: rel.s_curl(f, 'dd'),
    "Lie_beta(f, 's_dd', weight=-2/3)":
        lambda f: rel.Lie_beta(f, 's_dd', weight=-2/3),
}
failures = []
for name, fn in calls.items():
    ref = fn(arr)
    try:
        out = fn(comp)
        if not np.allclose(out, ref):
            failures.append(f"{name}: different values for list input")
    except Exception as e:  # noqa
        failures.append(f"{name}: {type(e).__name__}: {e}")
for m in failures:
    print("FAIL", m)
assert not failures, ("rank-2 array_like (nested list) input is rejected: "
                      + failures[0])
print("OK")
