"""Finding 5: the "unsupported indexing" errors of st_covd, s_div and s_curl are
never produced.  The message is built as  "...text" + + f"...", i.e. with a unary
plus applied to a str, so instead of the intended
    ValueError("Don't know how to compute ... with indices xx")
the user gets   TypeError: bad operand type for unary +: 'str'
(s_covd, which builds its message correctly, raises the ValueError).
"""
import numpy as np
import aurel

N = 8
param = {'Nx': N, 'Ny': N, 'Nz': N, 'xmin': 0., 'ymin': 0., 'zmin': 0.,
         'dx': 0.1, 'dy': 0.1, 'dz': 0.1}
fd = aurel.FiniteDifference(param, verbose=False)
rel = aurel.AurelCore(fd, verbose=False)
s = np.ones((N, N, N))
U = np.ones((4, N, N, N))
UU = np.ones((4, 4, N, N, N))
T = np.ones((3, 3, N, N, N))

# reference behaviour of the sibling function
try:
    rel.s_covd(T[0], 'x')
    raise SystemExit("s_covd accepted indexing 'x'")
except ValueError as e:
    print("s_covd:", type(e).__name__, e)

cases = {
    "st_covd(U, dtU, 'x')  (rank 1, bad letter)": lambda: rel.st_covd(U, U, 'x'),
    "st_covd(UU, dtUU, 'dd')  (rank 2, unsupported)":
        lambda: rel.st_covd(UU, UU, 'dd'),
    "s_div(scalar, '')": lambda: rel.s_div(s, ''),
    "s_curl(T, 'uu')": lambda: rel.s_curl(T, 'uu'),
}
failures = []
for name, fn in cases.items():
    try:
        fn()
        failures.append(f"{name}: no exception")
    except ValueError as e:
        print(name, "->", type(e).__name__, e)
    except Exception as e:  # noqa
        failures.append(f"{name}: raised {type(e).__name__}: {e} "
                        "instead of the intended ValueError")
for m in failures:
    print("FAIL", m)
assert not failures, failures[0]
print("OK")
