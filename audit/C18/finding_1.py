"""C18 finding 1: a restart directory without 3D data and without checkpoints
makes iterations() raise, and the half-written iterations.txt then makes the
next identical call succeed with a different (empty) entry."""
import contextlib, io, os, sys, tempfile
import h5py, numpy as np
from aurel import reading


def norm(d):
    out = {}
    for k, v in d.items():
        if k == 'overall':
            continue
        out[k] = {kk: [x if isinstance(x, str) else int(x) for x in vv]
                  for kk, vv in v.items()}
    return out


def call(fn, *a, **k):
    with contextlib.redirect_stdout(io.StringIO()):
        return fn(*a, **k)


root = tempfile.mkdtemp() + '/'
sim = 'simA'
d0 = f'{root}{sim}/output-0000/{sim}/'
d1 = f'{root}{sim}/output-0001/{sim}/'   # restart that died before any output
os.makedirs(d0)
os.makedirs(d1)
with h5py.File(d0 + 'rho.xyz.h5', 'w') as f:
    for it in range(0, 11, 2):
        f.create_dataset(f'HYDROBASE::rho it={it} tl=0 rl=0 c=0',
                         data=np.zeros((2, 2, 2)))
param = {'simpath': root, 'simname': sim}

try:
    first = call(reading.iterations, param, skip_last=False, verbose=False)
except Exception as e:  # noqa: BLE001
    first = e
second = call(reading.iterations, param, skip_last=False, verbose=False)

assert not isinstance(first, Exception), (
    'iterations() raised on a restart directory that has neither 3D data nor '
    f'checkpoints: {first!r}; the SAME call repeated then returns '
    f'{norm(second)} (history dependent, restart 1 recorded as done)')
assert norm(first) == norm(second), (norm(first), norm(second))
assert norm(first)[0]['rl = 0'] == [0, 10, 2]
assert norm(first)[1].get('checkpoints', []) == []
assert norm(call(reading.read_iterations, param)) == norm(first)
print('OK')
