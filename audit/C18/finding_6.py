"""C18 finding 6: the simulation name / path is interpolated into glob
patterns without escaping, so a name with glob metacharacters (here '[1]')
makes get_content(), the checkpoint listing of iterations() and parameters()
see an empty directory."""
import contextlib, io, os, tempfile
import h5py, numpy as np
from aurel import reading

PAR = """ActiveThorns = "Carpet"
CoordBase::xmin = -10.0
CoordBase::xmax = 10.0
CoordBase::ymin = -10.0
CoordBase::ymax = 10.0
CoordBase::zmin = -10.0
CoordBase::zmax = 10.0
CoordBase::dx = 0.5
CoordBase::dy = 0.5
CoordBase::dz = 0.5
"""


def build(sim):
    root = tempfile.mkdtemp() + '/'
    d0 = f'{root}{sim}/output-0000/{sim}/'
    os.makedirs(d0)
    with open(f'{root}{sim}/output-0000/{sim}.par', 'w') as f:
        f.write(PAR)
    with h5py.File(d0 + 'rho.xyz.h5', 'w') as f:
        for it in range(0, 11, 2):
            f.create_dataset(f'HYDROBASE::rho it={it} tl=0 rl=0 c=0',
                             data=np.zeros((2, 2, 2)))
    open(d0 + 'checkpoint.chkpt.it_8.h5', 'w').close()
    return root


def catalogue(sim):
    root = build(sim)
    param = {'simpath': root, 'simname': sim}
    with contextlib.redirect_stdout(io.StringIO()):
        content = reading.get_content(param, restart=0, verbose=False)
        try:
            its = reading.iterations(param, skip_last=False, verbose=False)
        except Exception as e:  # noqa: BLE001
            raise AssertionError(
                f"simulation called {sim!r}: get_content() returns {content} "
                f"and iterations() raises {e!r} although rho.xyz.h5 and a "
                "checkpoint are in the directory") from e
    return ({k: [os.path.basename(p) for p in v] for k, v in content.items()},
            {k: [int(x) for x in v] for k, v in its[0].items()
             if k != 'var available'})


ref = catalogue('run_1')
got = catalogue('run[1]')
assert ref[0] == {('rho',): ['rho.xyz.h5']}, ref
assert got == ref, (
    f"same files, simulation called 'run[1]' instead of 'run_1': "
    f"content {got[0]} instead of {ref[0]}, iterations {got[1]} instead of "
    f"{ref[1]}")

root = build('run[1]')
os.environ['SIMLOC'] = root
try:
    p = reading.parameters('run[1]')
except ValueError as e:
    raise AssertionError(f"parameters('run[1]') does not find the existing "
                         f"parameter file: {e}") from e
print('OK')
