"""C18 finding 3: per-level iterations are taken from the keys of the LARGEST
component number only.  If the number of components of a level changes during
the run (regridding), the iterations after the change are not catalogued."""
import contextlib, io, os, tempfile
import h5py, numpy as np
from aurel import reading

root = tempfile.mkdtemp() + '/'
sim = 'simE'
d0 = f'{root}{sim}/output-0000/{sim}/'
os.makedirs(d0)
with h5py.File(d0 + 'rho.xyz.h5', 'w') as f:
    for it in range(0, 9, 2):
        for rl in (0, 1):
            # level 1 consists of two boxes at it=0 and of one box afterwards
            ncomp = 2 if (rl == 1 and it == 0) else 1
            for c in range(ncomp):
                f.create_dataset(f'HYDROBASE::rho it={it} tl=0 rl={rl} c={c}',
                                 data=np.zeros((2, 2, 2)))
param = {'simpath': root, 'simname': sim}
with contextlib.redirect_stdout(io.StringIO()):
    res = reading.iterations(param, skip_last=False, verbose=False)
    back = reading.read_iterations(param)
got = [int(x) for x in res[0]['rl = 1']]
assert got == [0, 8, 2], (
    f"rl = 1 is on disk at it = 0, 2, 4, 6, 8 but is catalogued as {got} "
    f"(iterations.txt: {back[0]['rl = 1']})")
assert [int(x) for x in res[0]['rl = 0']] == [0, 8, 2]
print('OK')
