"""C18 finding 4: the list of iterations is not de-duplicated, so the stride
np.diff(allits)[0] is reported as 0 when (a) the keys of the chosen variable
are selected by substring and another variable of the group contains its name
(K / Kxx), or (b) several time levels are written for an iteration."""
import contextlib, io, os, tempfile
import h5py, numpy as np
from aurel import reading


def catalogue(fname, thorn, variables, tls):
    root = tempfile.mkdtemp() + '/'
    sim = 'simJ'
    d0 = f'{root}{sim}/output-0000/{sim}/'
    os.makedirs(d0)
    with h5py.File(d0 + fname, 'w') as f:
        for v in variables:
            for it in range(0, 9, 2):
                for tl in tls:
                    f.create_dataset(f'{thorn}::{v} it={it} tl={tl} rl=0 c=0',
                                     data=np.zeros((2, 2, 2)))
    param = {'simpath': root, 'simname': sim}
    with contextlib.redirect_stdout(io.StringIO()):
        res = reading.iterations(param, skip_last=False, verbose=False)
        back = reading.read_iterations(param)
    return [int(x) for x in res[0]['rl = 0']], back[0]['rl = 0']


got, back = catalogue('mythorn-curvs.xyz.h5', 'MYTHORN', ['K', 'Kxx', 'Kxy'], (0,))
assert got == [0, 8, 2] and back == [0, 8, 2], (
    f"group file with variables K, Kxx, Kxy at it = 0, 2, ..., 8: catalogued "
    f"as {got} (file: {back}); stride 0 because 'K' also matches Kxx and Kxy")

got, back = catalogue('rho.xyz.h5', 'HYDROBASE', ['rho'], (0, 1))
assert got == [0, 8, 2] and back == [0, 8, 2], (
    f"rho written with time levels 0 and 1 at it = 0, 2, ..., 8: catalogued "
    f"as {got} (file: {back})")
print('OK')
