"""C18 finding 7: any other *.h5 file of the output directory (here the
Multipole output mp_psi4.h5, which has no Carpet dataset keys) is catalogued
as a 3D variable, preferred as the file to read the iterations from, and then
makes iterations() raise TypeError."""
import contextlib, io, os, tempfile
import h5py, numpy as np
from aurel import reading

root = tempfile.mkdtemp() + '/'
sim = 'simI'
d0 = f'{root}{sim}/output-0000/{sim}/'
os.makedirs(d0)
with h5py.File(d0 + 'admbase-metric.xyz.h5', 'w') as f:
    for v in ['gxx', 'gxy', 'gxz', 'gyy', 'gyz', 'gzz']:
        for it in range(12, 21, 4):
            f.create_dataset(f'ADMBASE::{v} it={it} tl=0 rl=0 c=0',
                             data=np.zeros((2, 2, 2)))
with h5py.File(d0 + 'mp_psi4.h5', 'w') as f:
    f.create_dataset('l2_m2_r100.00', data=np.zeros((5, 3)))
param = {'simpath': root, 'simname': sim}
try:
    with contextlib.redirect_stdout(io.StringIO()):
        res = reading.iterations(param, skip_last=False, verbose=False)
except Exception as e:  # noqa: BLE001
    raise AssertionError(
        f'iterations() raised {e!r} because mp_psi4.h5 (no Carpet keys) was '
        'chosen as the file to read the iterations from') from e
assert [int(x) for x in res[0]['rl = 0']] == [12, 20, 4], res[0]
print('OK')
