"""C18 finding 2: when the only single-variable file of a restart is NaNmask,
iterations() never selects a file for that restart.  In a fresh scan of two
restarts it silently re-reads the file of the PREVIOUS restart (stale
file_for_it / file_to_read) and reports restart 0's iterations for restart 1;
catalogued on its own the same restart raises UnboundLocalError."""
import contextlib, io, os, tempfile
import h5py, numpy as np
from aurel import reading


def call(fn, *a, **k):
    with contextlib.redirect_stdout(io.StringIO()):
        return fn(*a, **k)


def mk(path, thorn, variables, its):
    with h5py.File(path, 'w') as f:
        for v in variables:
            for it in its:
                f.create_dataset(f'{thorn}::{v} it={it} tl=0 rl=0 c=0',
                                 data=np.zeros((2, 2, 2)))
        f.create_group('Parameters and Global Attributes')


METRIC = ['gxx', 'gxy', 'gxz', 'gyy', 'gyz', 'gzz']

# --- (a) fresh scan of two restarts ---------------------------------------
root = tempfile.mkdtemp() + '/'
sim = 'simB'
d0 = f'{root}{sim}/output-0000/{sim}/'
d1 = f'{root}{sim}/output-0001/{sim}/'
os.makedirs(d0)
os.makedirs(d1)
mk(d0 + 'rho.xyz.h5', 'HYDROBASE', ['rho'], range(0, 11, 2))
mk(d1 + 'admbase-metric.xyz.h5', 'ADMBASE', METRIC, range(12, 21, 4))
mk(d1 + 'NaNmask.xyz.h5', 'NANCHECKER', ['NaNmask'], range(12, 21, 4))
param = {'simpath': root, 'simname': sim}
res = call(reading.iterations, param, skip_last=False, verbose=False)
got = [int(x) for x in res[1]['rl = 0']]
assert got == [12, 20, 4], (
    f"restart 1 holds iterations 12..20 step 4 but is catalogued as {got} "
    f"(its available {[int(x) for x in res[1]['its available']]}): the file "
    "of restart 0 was read again")

# --- (b) the same restart catalogued on its own ---------------------------
root = tempfile.mkdtemp() + '/'
d0 = f'{root}{sim}/output-0000/{sim}/'
os.makedirs(d0)
mk(d0 + 'admbase-metric.xyz.h5', 'ADMBASE', METRIC, range(12, 21, 4))
mk(d0 + 'NaNmask.xyz.h5', 'NANCHECKER', ['NaNmask'], range(12, 21, 4))
param = {'simpath': root, 'simname': sim}
try:
    res = call(reading.iterations, param, skip_last=False, verbose=False)
except Exception as e:  # noqa: BLE001
    raise AssertionError(f'iterations() raised {e!r} for a restart whose only '
                         'single-variable file is NaNmask') from e
assert [int(x) for x in res[0]['rl = 0']] == [12, 20, 4], res[0]
print('OK')
