"""C18 finding 5: the 'overall' catalogue merges two restarts with the same
stride by overwriting the upper bound, whatever their ranges are.  A second
restart that ends earlier than the first SHRINKS the overall range, and a gap
between restarts is reported as filled."""
import contextlib, io, os, tempfile
import h5py, numpy as np
from aurel import reading


def overall(ranges):
    root = tempfile.mkdtemp() + '/'
    sim = 'simG'
    disk = set()
    for r, its in enumerate(ranges):
        d = f'{root}{sim}/output-{r:04d}/{sim}/'
        os.makedirs(d)
        with h5py.File(d + 'rho.xyz.h5', 'w') as f:
            for it in its:
                f.create_dataset(f'HYDROBASE::rho it={it} tl=0 rl=0 c=0',
                                 data=np.zeros((2, 2, 2)))
        disk |= set(its)
    param = {'simpath': root, 'simname': sim}
    with contextlib.redirect_stdout(io.StringIO()):
        res = reading.iterations(param, skip_last=False, verbose=False)
    segs = res['overall']['rl = 0']
    claimed = set()
    for s in segs:
        s = [int(x) for x in s]
        claimed |= set(range(s[0], s[1] + 1, s[2])) if len(s) == 3 else {s[0]}
    return [[int(x) for x in s] for s in segs], claimed, disk


# restart 1 was started from the checkpoint at it=50 and stopped at it=80
segs, claimed, disk = overall([range(0, 101, 10), range(50, 81, 10)])
assert claimed == disk, (
    f"restarts hold it=0..100 and it=50..80 (step 10) but overall is {segs}: "
    f"iterations {sorted(disk - claimed)} exist on disk and are not listed")

# nothing was written between it=100 and it=500
segs, claimed, disk = overall([range(0, 101, 10), range(500, 601, 10)])
assert claimed == disk, (
    f"restarts hold it=0..100 and it=500..600 (step 10) but overall is {segs}: "
    f"{len(claimed - disk)} iterations are listed that are not on disk")
print('OK')
