"""C06 finding 2: boundary='symmetric' gives O(1), non-converging constraints
and dt-quantities on a reflection-symmetric exact solution.

Exact solution: ultra-static conformally flat spacetime
    ds^2 = -dt^2 + psi^4 (dx^2+dy^2+dz^2),  psi = 1 + a cos(kx)cos(ky)cos(kz)
with T_ab := G_ab / kappa (Lambda = 0).  alpha=1, beta=0, K_ij=0, and every
input component is even about the planes x,y,z = 0 and x,y,z = 1, which are
the first/last grid planes: exactly the situation boundary='symmetric' is for.
True values: Hamiltonian = 0 and d_t Atilde_ij = 0 (static, K_ij = 0).
"""
import numpy as np
import aurel

kappa = 8 * np.pi
a, k = 0.1, np.pi


def setup(N, boundary):
    dx = 1.0 / (N - 1)
    param = dict(Nx=N, Ny=N, Nz=N, xmin=0.0, ymin=0.0, zmin=0.0,
                 dx=dx, dy=dx, dz=dx)
    fd = aurel.FiniteDifference(param, boundary=boundary, fd_order=4,
                                verbose=False)
    X = [fd.x, fd.y, fd.z]
    c = [np.cos(k * q) for q in X]
    s = [np.sin(k * q) for q in X]
    psi = 1 + a * c[0] * c[1] * c[2]
    # analytic first and second derivatives of psi
    d = [None] * 3
    dd = [[None] * 3 for _ in range(3)]
    for i in range(3):
        f = [c[0], c[1], c[2]]
        f[i] = -k * s[i]
        d[i] = a * f[0] * f[1] * f[2]
        for j in range(3):
            f = [c[0], c[1], c[2]]
            if i == j:
                f[i] = -k * k * c[i]
            else:
                f[i] = -k * s[i]
                f[j] = -k * s[j]
            dd[i][j] = a * f[0] * f[1] * f[2]
    dphi = [d[i] / psi for i in range(3)]
    ddphi = [[dd[i][j] / psi - d[i] * d[j] / psi**2 for j in range(3)]
             for i in range(3)]
    lap = sum(ddphi[i][i] for i in range(3))
    grad2 = sum(dphi[i]**2 for i in range(3))
    zero = np.zeros_like(psi)
    Ric = np.array([[-2 * ddphi[i][j] + 4 * dphi[i] * dphi[j]
                     + (i == j) * (-2 * lap - 4 * grad2)
                     for j in range(3)] for i in range(3)])
    gam = np.array([[(i == j) * psi**4 + zero for j in range(3)]
                    for i in range(3)])
    RS = sum(Ric[i, i] for i in range(3)) / psi**4
    T = np.zeros((4, 4) + psi.shape)
    T[0, 0] = 0.5 * RS / kappa
    T[1:, 1:] = (Ric - 0.5 * RS * gam) / kappa
    rel = aurel.AurelCore(fd, verbose=False)
    rel.data['gammadown3'] = gam
    rel.data['Tdown4'] = T
    rel.freeze_data()
    return rel


def errors(N, boundary):
    rel = setup(N, boundary)
    return {key: float(np.max(np.abs(rel[key])))
            for key in ('Hamiltonian', 'dtAdown3_bssnok')}


bad = []
KEYS = ('Hamiltonian', 'dtAdown3_bssnok')
ref = {N: errors(N, 'no boundary') for N in (17, 33)}
sym = {N: errors(N, 'symmetric') for N in (17, 33)}
for key in KEYS:
    print(f"{key:16s} no boundary: {ref[17][key]:.3e} -> {ref[33][key]:.3e}"
          f" | symmetric: {sym[17][key]:.3e} -> {sym[33][key]:.3e}")
    # the analytic data are right: one-sided stencils converge to zero
    assert ref[33][key] < ref[17][key] / 4, "reference run does not converge"
    if not sym[33][key] < max(sym[17][key] / 4, 1e-9):
        bad.append(f"{key}: {sym[17][key]:.3e} (N=17) -> {sym[33][key]:.3e}"
                   " (N=33) does not converge to 0")
assert not bad, ("boundary='symmetric' on even exact-solution data: "
                 + "; ".join(bad))
print("OK")
