"""C06 finding 3: with the default boundary ('no boundary') the constraints and
the dt-quantities that need second derivatives converge one order BELOW
fd_order (order 1 for fd_order=2, order 3 for fd_order=4) because the
one-sided first-derivative closure of order p is applied twice.

Exact solution: ultra-static conformally flat spacetime
    ds^2 = -dt^2 + psi^4 delta_ij dx^i dx^j, psi = 1 + a cos(kx)cos(ky)cos(kz),
T_ab := G_ab/kappa, alpha=1, beta=0, K_ij=0.  True Hamiltonian = 0 and
d_t Atilde_ij = 0.
"""
import numpy as np
import aurel

kappa = 8 * np.pi
a, k = 0.1, np.pi


def setup(N, fd_order):
    dx = 0.8 / (N - 1)
    param = dict(Nx=N, Ny=N, Nz=N, xmin=0.13, ymin=0.07, zmin=0.11,
                 dx=dx, dy=dx, dz=dx)
    fd = aurel.FiniteDifference(param, fd_order=fd_order, verbose=False)
    X = [fd.x, fd.y, fd.z]
    c = [np.cos(k * q) for q in X]
    s = [np.sin(k * q) for q in X]
    psi = 1 + a * c[0] * c[1] * c[2]
    d = [None] * 3
    dd = [[None] * 3 for _ in range(3)]
    for i in range(3):
        f = [c[0], c[1], c[2]]
        f[i] = -k * s[i]
        d[i] = a * f[0] * f[1] * f[2]
        for j in range(3):
            f = [c[0], c[1], c[2]]
            if i == j:
                f[i] = -k * k * c[i]
            else:
                f[i] = -k * s[i]
                f[j] = -k * s[j]
            dd[i][j] = a * f[0] * f[1] * f[2]
    dphi = [d[i] / psi for i in range(3)]
    ddphi = [[dd[i][j] / psi - d[i] * d[j] / psi**2 for j in range(3)]
             for i in range(3)]
    lap = sum(ddphi[i][i] for i in range(3))
    grad2 = sum(dphi[i]**2 for i in range(3))
    zero = np.zeros_like(psi)
    Ric = np.array([[-2 * ddphi[i][j] + 4 * dphi[i] * dphi[j]
                     + (i == j) * (-2 * lap - 4 * grad2)
                     for j in range(3)] for i in range(3)])
    gam = np.array([[(i == j) * psi**4 + zero for j in range(3)]
                    for i in range(3)])
    RS = sum(Ric[i, i] for i in range(3)) / psi**4
    T = np.zeros((4, 4) + psi.shape)
    T[0, 0] = 0.5 * RS / kappa
    T[1:, 1:] = (Ric - 0.5 * RS * gam) / kappa
    rel = aurel.AurelCore(fd, verbose=False)
    rel.data['gammadown3'] = gam
    rel.data['Tdown4'] = T
    rel.freeze_data()
    return rel, fd


bad = []
for fd_order, Ns in ((2, (17, 33, 65)), (4, (17, 33, 65))):
    for key in ('Hamiltonian', 'dtAdown3_bssnok'):
        full, inner = [], []
        for N in Ns:
            rel, fd = setup(N, fd_order)
            e = np.abs(rel[key])
            q = (N - 1) // 4   # fixed physical region: central half
            full.append(e.max())
            inner.append(e[..., q:N-q, q:N-q, q:N-q].max())
        p_full = np.log2(full[-2] / full[-1])
        p_inner = np.log2(inner[-2] / inner[-1])
        print(f"fd_order={fd_order} {key:16s} max-norm order: whole grid "
              f"{p_full:.2f}, central half of the box {p_inner:.2f}")
        if p_full < fd_order - 0.5:
            bad.append(f"{key} fd_order={fd_order}: observed order "
                       f"{p_full:.2f}")
assert not bad, ("convergence order on the whole grid is below the order of "
                 "the scheme: " + "; ".join(bad))
print("OK")
