"""C06 finding 4: periodic grids with fewer points along an axis than the
stencil half-width (e.g. plane-symmetric data on an (N,1,1) grid) raise
IndexError for fd_order >= 4, although fd_order = 2 handles them and the
derivative along such a periodic axis is perfectly well defined.

Exact solution: Minkowski in the coordinates x -> x + a sin(kx) (plane
symmetric, periodic): gxx = (1 + a k cos(kx))^2, alpha=1, beta=0, K_ij=0.
The data do not depend on y, z, so the result on an (N, 1, 1) or (N, N, 3)
periodic grid must equal the result on an (N, 9, 9) periodic grid.
"""
import numpy as np
import aurel

a, k = 0.02, 2 * np.pi
KEYS = ('Hamiltonian', 'Momentumup3', 'dtKtrace', 'dtAdown3_bssnok',
        'dts_Gamma_bssnok')


def run(shape, fd_order):
    Nx, Ny, Nz = shape
    param = dict(Nx=Nx, Ny=Ny, Nz=Nz, xmin=0.0, ymin=0.0, zmin=0.0,
                 dx=1.0/Nx, dy=1.0/Ny, dz=1.0/Nz)
    fd = aurel.FiniteDifference(param, boundary='periodic',
                                fd_order=fd_order, verbose=False)
    rel = aurel.AurelCore(fd, verbose=False)
    rel.data['gxx'] = (1 + a * k * np.cos(k * fd.x))**2
    rel.freeze_data()
    return {key: rel[key][..., :, :1, :1] for key in KEYS}


failures = []
for fd_order in (2, 4, 6, 8):
    ref = run((16, 9, 9), fd_order)
    for shape in ((16, 1, 1), (16, 16, 1), (16, 16, 3)):
        try:
            out = run(shape, fd_order)
            diff = max(np.max(np.abs(out[key][..., :, :1, :1] - ref[key]))
                       for key in KEYS)
            ok = diff < 1e-10
            msg = f"max difference to the (16,9,9) grid = {diff:.2e}"
        except Exception as e:   # noqa: BLE001
            ok = False
            msg = repr(e)
        print(fd_order, shape, 'ok  ' if ok else 'FAIL', msg)
        if not ok:
            failures.append(f"fd_order={fd_order} {shape}: {msg}")
assert not failures, ("periodic grid with a short axis: "
                      + " | ".join(failures))
print("OK")
