"""C06 finding 1: vacuum=True silently drops the cosmological constant.

de Sitter spacetime (T_ab = 0, Lambda = 3 H^2) in Painleve-Gullstrand-like
coordinates: alpha = 1, beta^i = -H x^i, gamma_ij = delta_ij, K_ij = -H delta_ij.
It is an exact *vacuum* solution with cosmological constant, so
AurelCore(fd, Lambda=3H^2, vacuum=True) is the matching configuration.
Hamiltonian must vanish and dtKtrace must equal d_t K = 0.
"""
import numpy as np
import aurel

H = 0.5
Lambda = 3 * H**2
N = 12
param = dict(Nx=N, Ny=N, Nz=N, xmin=-1.0, ymin=-1.0, zmin=-1.0,
             dx=2.0/N, dy=2.0/N, dz=2.0/N)
fd = aurel.FiniteDifference(param, fd_order=4, verbose=False)


def run(vacuum):
    rel = aurel.AurelCore(fd, Lambda=Lambda, vacuum=vacuum, verbose=False)
    one = np.ones(fd.x.shape)
    rel.data['alpha'] = one.copy()
    rel.data['betaup3'] = -H * np.array([fd.x, fd.y, fd.z])
    for k in ('gxx', 'gyy', 'gzz'):
        rel.data[k] = one.copy()
    for k in ('kxx', 'kyy', 'kzz'):
        rel.data[k] = -H * one
    rel.freeze_data()
    return (np.max(np.abs(rel['Hamiltonian'])),
            np.max(np.abs(rel['Momentumup3'])),
            np.max(np.abs(rel['dtKtrace'])))


ham0, mom0, dtK0 = run(vacuum=False)   # T = 0 is the default matter content
ham1, mom1, dtK1 = run(vacuum=True)
print(f"vacuum=False: |Ham|={ham0:.3e} |Mom|={mom0:.3e} |dtK|={dtK0:.3e}")
print(f"vacuum=True : |Ham|={ham1:.3e} |Mom|={mom1:.3e} |dtK|={dtK1:.3e}")
assert ham0 < 1e-10 and dtK0 < 1e-10, "reference (vacuum=False) run is off"
bad = []
if not ham1 < 1e-10:
    bad.append(f"Hamiltonian = {ham1:.6g} (= 2*Lambda = {2*Lambda}) instead "
               "of 0: the vacuum shortcut drops the -2*Lambda term")
if not dtK1 < 1e-10:
    bad.append(f"dtKtrace = {dtK1:.6g} (= Lambda = {Lambda}) instead of the "
               "true d_t K = 0: the vacuum shortcut drops -alpha*Lambda")
assert not bad, "de Sitter with vacuum=True, Lambda=3H^2: " + "; ".join(bad)
print("OK")
