"""C16 finding 4: Cartesian<->spherical conversion does not round-trip (and
produces inf / NaN) for very small or very large finite coordinates.

r = sqrt(x*x + y*y + z*z) squares the coordinates: it overflows to inf for
|x| >~ 1.3e154 and underflows / loses all precision for |x| <~ 1e-154, so
r, theta, phi of the grid object are wrong although every coordinate is an
ordinary finite double.  In addition theta = arccos(z/r) cannot resolve angles
below sqrt(eps) ~ 1.5e-8: grid points that close to (but not on) the z axis
are mapped onto the axis (theta = 0) and come back with x = y = 0.
"""
import warnings
import numpy as np
from aurel.finitedifference import FiniteDifference

warnings.simplefilter('ignore')
bad = []
for scale in (1.0, 1e-160, 1e160):
    N = 21
    p = {'Nx': N, 'Ny': N, 'Nz': N,
         'xmin': -scale, 'ymin': -scale, 'zmin': -scale,
         'dx': 0.1 * scale, 'dy': 0.1 * scale, 'dz': 0.1 * scale}
    fd = FiniteDifference(p, verbose=False)
    assert np.all(np.isfinite(fd.cartesian_coords))
    msgs = []
    for name in ('r', 'theta', 'phi'):
        a = getattr(fd, name)
        if not np.all(np.isfinite(a)):
            msgs.append(f"{np.sum(~np.isfinite(a))} non-finite values in "
                        f"fd.{name}")
    with np.errstate(all='ignore'):
        back = np.array(fd.spherical_to_cartesian(fd.r, fd.theta, fd.phi))
        err = np.max(np.abs(back - fd.cartesian_coords) / scale)
    if not err < 1e-12:
        msgs.append(f"round-trip error {err} (relative to the grid scale)")
    if msgs:
        bad.append(f"scale {scale:g}: " + ", ".join(msgs))
# ordinary scale, grid offset by 1e-8 from the z axis: (1e-8, 1e-8, z)
p = {'Nx': 9, 'Ny': 9, 'Nz': 9, 'xmin': -2 + 1e-8, 'ymin': -2 + 1e-8,
     'zmin': -2 + 1e-8, 'dx': 0.5, 'dy': 0.5, 'dz': 0.5}
fd = FiniteDifference(p, verbose=False)
back = np.array(fd.spherical_to_cartesian(fd.r, fd.theta, fd.phi))
err = np.abs(back - fd.cartesian_coords)
i = np.unravel_index(np.argmax(err), err.shape)
if not err[i] < 1e-12:
    pt = tuple(float(c) for c in fd.cartesian_coords[(slice(None),) + i[1:]])
    bk = tuple(float(c) for c in back[(slice(None),) + i[1:]])
    bad.append(f"offset grid: point {pt} round-trips to {bk} "
               f"(abs. error {err[i]:.3g})")
assert not bad, "spherical coordinates wrong for finite coordinates: " \
    + " | ".join(bad)
print("finding_4: OK")
