"""C16 finding 2: cutoffmask / cutoffmask2 silently return None for ndim > 3.

The edge-trimming helpers only handle 1-, 2- and 3-dimensional input; anything
else (a vector/tensor field (3, Nx, Ny, Nz) as returned by fd.d3_scalar, a
time series (Nt, Nx, Ny, Nz)) falls off the if/elif chain and None is returned
without any error.
"""
import numpy as np
from aurel.finitedifference import FiniteDifference

N = 20
p = {'Nx': N, 'Ny': N, 'Nz': N, 'xmin': 0.1, 'ymin': 0.1, 'zmin': 0.1,
     'dx': 0.3, 'dy': 0.3, 'dz': 0.3}
for order in (2, 4, 6, 8):
    fd = FiniteDifference(p, fd_order=order, verbose=False)
    m = order // 2
    grad = fd.d3_scalar(fd.x * fd.y)          # (3, N, N, N)
    for name, k in (('cutoffmask', 1), ('cutoffmask2', 2)):
        func = getattr(fd, name)
        # sanity: the 3D case trims exactly k*m per side
        assert func(fd.x).shape == (N - 2*k*m,) * 3
        try:
            out = func(grad)
        except (ValueError, TypeError, NotImplementedError):
            continue  # an explicit refusal would be acceptable
        assert out is not None, (
            f"fd.{name}(array of shape {grad.shape}) silently returned None "
            f"(fd_order={order}); expected the grid axes trimmed by {k*m} per "
            f"side, i.e. shape {(3,) + (N - 2*k*m,)*3}, or an explicit error")
        assert out.shape == (3,) + (N - 2*k*m,) * 3, out.shape
        assert np.array_equal(out[1], func(grad[1]))
print("finding_2: OK")
