"""C16 finding 3: reading.parameters derives one grid point too few when
(xmax - xmin)/dx is not exactly representable (dx = 0.1, 0.3, ...).

N = int(L/dx) - 1 truncates 11.999999999999998 to 11.  The FiniteDifference
built from the returned dict then has one point less per axis than the
simulation grid the .par file specifies (and than the 3D data in the files).
"""
import os
import tempfile

tmp = tempfile.mkdtemp()
sim = 'c16sim'
os.makedirs(f'{tmp}/{sim}/output-0000/{sim}')
os.environ['SIMLOC'] = tmp + '/'

from aurel import reading                                   # noqa: E402
from aurel.finitedifference import FiniteDifference         # noqa: E402


def npoints(xmin, xmax, dx):
    with open(f'{tmp}/{sim}/output-0000/{sim}.par', 'w') as f:
        f.write('ActiveThorns = "CoordBase CartGrid3D"\n')
        for c in 'xyz':
            f.write(f'CoordBase::{c}min = {xmin}\n')
            f.write(f'CoordBase::{c}max = {xmax}\n')
            f.write(f'CoordBase::d{c} = {dx}\n')
            f.write(f'CoordBase::boundary_shiftout_{c}_lower = 1\n')
    p = reading.parameters(sim)
    fd = FiniteDifference(p, verbose=False)
    return p['Nx'], fd.xmax


# reference: exactly representable spacing, 8 intervals -> N = 8 - 1 + 1
N, xmax = npoints(-0.5, 0.5, 0.125)
assert N == 8 and xmax == 0.375, (N, xmax)

bad = []
# the same layout, 12 / 6 / 3 intervals of 0.1 -> N must be 12 / 6 / 3
for xmin, xmax_par, dx, expected in [(-0.6, 0.6, 0.1, 12),
                                     (-0.3, 0.3, 0.1, 6),
                                     (0.0, 0.3, 0.1, 3)]:
    N, last = npoints(xmin, xmax_par, dx)
    if N != expected or abs(last - (xmax_par - dx)) > 1e-12:
        bad.append(f"[{xmin},{xmax_par}] dx={dx}: Nx={N} (expected {expected})"
                   f", last grid point {last} (expected {xmax_par - dx})")
assert not bad, "reading.parameters loses a grid point: " + "; ".join(bad)
print("finding_3: OK")
