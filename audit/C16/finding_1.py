"""C16 finding 1: the grid object aliases the caller's param dict.

FiniteDifference keeps a reference to the caller's dictionary and the
derivative routines / AurelCore read N from it *live*, while the coordinate
arrays, fd.Nx and inverse_dx are snapshots taken at construction.  Re-using the
dictionary to build a second grid (a convergence study) silently changes what
the first grid object "is": wrong output shape, or IndexError.
"""
import numpy as np
from aurel.finitedifference import FiniteDifference
from aurel.core import AurelCore

p = {'Nx': 16, 'Ny': 16, 'Nz': 16,
     'xmin': -2.0, 'ymin': -2.0, 'zmin': -2.0,
     'dx': 0.25, 'dy': 0.25, 'dz': 0.25}
fd_fine = FiniteDifference(p, verbose=False)
f = fd_fine.x**2
ref = fd_fine.d3x(f)
assert ref.shape == (16, 16, 16)

# the user now builds the coarse grid of the convergence pair, re-using the dict
p['Nx'] = 8
p['dx'] = 0.5
fd_coarse = FiniteDifference(p, verbose=False)

errors = []
# the fine grid object must still describe the 16^3 grid it was built for
if (fd_fine.Nx, fd_fine.xarray.shape) != (16, (16,)):
    errors.append("fd.Nx / xarray changed")
try:
    again = fd_fine.d3x(f)
    if again.shape != f.shape:
        errors.append(f"fd_fine.d3x(f) has shape {again.shape}, data shape is "
                      f"{f.shape} (fd_fine.Nx={fd_fine.Nx})")
    elif not np.array_equal(again, ref):
        errors.append("fd_fine.d3x(f) values changed")
except Exception as e:  # refining instead of coarsening gives IndexError
    errors.append(f"fd_fine.d3x(f) raised {type(e).__name__}: {e}")

rel = AurelCore(fd_fine, verbose=False)
grid_shape = (fd_fine.Nx, fd_fine.Ny, fd_fine.Nz)
if tuple(rel.data_shape) != grid_shape:
    errors.append(f"AurelCore.data_shape={rel.data_shape} but the grid "
                  f"(fd.x.shape) is {fd_fine.x.shape}")
if rel.kronecker_delta3().shape[2:] != fd_fine.x.shape:
    errors.append(f"kronecker_delta3 shape {rel.kronecker_delta3().shape}")

assert not errors, "grid object depends on later mutations of the caller's " \
    "param dict: " + "; ".join(errors)
print("finding_1: OK")
