"""C16 (reading side) finding 7: reading.parameters returns a different grid
when CoordBase::boundary_shiftout_*_lower is written out with its default
value 0 than when it is left out of the .par file.

The lower point is dropped (xmin += dx) only when the key is ABSENT; with the
key present and equal to 0 (the thorn default, i.e. the very same simulation)
Nx is the same but xmin is not shifted, so the FiniteDifference grid built
from the dict is displaced by one spacing.
"""
import os
import tempfile

tmp = tempfile.mkdtemp()
sim = 'c16sim'
os.makedirs(f'{tmp}/{sim}/output-0000/{sim}')
os.environ['SIMLOC'] = tmp + '/'

from aurel import reading                                   # noqa: E402
from aurel.finitedifference import FiniteDifference         # noqa: E402


def grid(extra):
    with open(f'{tmp}/{sim}/output-0000/{sim}.par', 'w') as f:
        for c in 'xyz':
            f.write(f'CoordBase::{c}min = -0.25\n')
            f.write(f'CoordBase::{c}max = 0.25\n')
            f.write(f'CoordBase::d{c} = 0.0625\n')
            f.write(extra.format(c=c))
    fd = FiniteDifference(reading.parameters(sim), verbose=False)
    return fd.Nx, fd.xmin, fd.xmax


implicit = grid('')
explicit = grid('CoordBase::boundary_shiftout_{c}_lower = 0\n')
assert implicit == explicit, (
    "same simulation, different grid (Nx, xmin, xmax): key absent -> "
    f"{implicit}, boundary_shiftout_x_lower = 0 written out -> {explicit}")
print("finding_7: OK")
