"""C16 (adjacent helper) finding 6: excision / excision2 do nothing when the
singular point is closer to the lower grid edge than the stencil width.

The window start isx - mask_len - 1 becomes negative and Python interprets it
as an index from the END of the axis, so the slice is empty.  For an octant
grid (xmin = 0, boundary='symmetric', the puncture at index 0) not even the
singular point itself is masked.
"""
import numpy as np
from aurel.finitedifference import FiniteDifference

N = 16
p = {'Nx': N, 'Ny': N, 'Nz': N, 'xmin': 0.0, 'ymin': 0.0, 'zmin': 0.0,
     'dx': 0.25, 'dy': 0.25, 'dz': 0.25}
fd = FiniteDifference(p, boundary='symmetric', fd_order=4, verbose=False)
assert (fd.ixcenter, fd.iycenter, fd.izcenter) == (0, 0, 0)
f = np.ones((N, N, N))
w = fd.mask_len + 1  # stencil half width + buffer
for name, width in (('excision', w), ('excision2', 2 * fd.mask_len + 1)):
    out = getattr(fd, name)(f)
    assert np.isnan(out[0, 0, 0]), (
        f"fd.{name}: singular point (index 0,0,0) not excised; "
        f"{np.isnan(out).sum()} points were set to NaN in total")
    for ax in range(3):
        line = np.moveaxis(out, ax, 0)[:, 0, 0]
        assert np.all(np.isnan(line[:width + 1])), (name, ax, line)

# interior reference: same call on a centred grid does excise
p2 = dict(p, xmin=-2.0, ymin=-2.0, zmin=-2.0)
fd2 = FiniteDifference(p2, fd_order=4, verbose=False)
assert np.isnan(fd2.excision(f)).sum() == 3 * (2 * w + 1) - 2
print("finding_6: OK")
