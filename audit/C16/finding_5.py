"""C16 finding 5: fd.spherical_coords is stored as (r, phi, theta) while the
class documents it as (radius, inclination/polar, azimuth) = (r, theta, phi),
the order used by both converters.  Feeding the derived array back into the
library's own converter therefore does not give back the Cartesian grid, and
cartesian_to_spherical(*fd.cartesian_coords) != fd.spherical_coords.
"""
import numpy as np
from aurel.finitedifference import FiniteDifference

p = {'Nx': 7, 'Ny': 8, 'Nz': 9, 'xmin': 0.1, 'ymin': -1/3, 'zmin': -0.3,
     'dx': 0.3, 'dy': 1/3, 'dz': 0.1}
fd = FiniteDifference(p, verbose=False)
assert fd.spherical_coords.shape == (3, 7, 8, 9)
# r, theta (inclination, 0..pi), phi (azimuth, -pi..pi) as the converters use
assert fd.theta.min() >= 0 and fd.phi.min() < 0
fwd = np.array(fd.cartesian_to_spherical(*fd.cartesian_coords))
back = np.array(fd.spherical_to_cartesian(*fd.spherical_coords))
err = np.max(np.abs(back - fd.cartesian_coords))
assert np.array_equal(fwd, fd.spherical_coords) and err < 1e-12, (
    "fd.spherical_coords is ordered (r, azimuth, inclination), not (radius, "
    "inclination/polar, azimuth) as documented / as the converters use: "
    f"spherical_to_cartesian(*fd.spherical_coords) is off by {err:.3g}; "
    f"spherical_coords[1] is fd.phi: "
    f"{np.array_equal(fd.spherical_coords[1], fd.phi)}")
print("finding_5: OK")
