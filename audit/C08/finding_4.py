"""C08 finding 4: A2 and A2_bssnok, both documented as "Magnitude of the
(conformal) traceless part of the extrinsic curvature" (A^2, \\tilde A^2),
differ by a factor 2.

\\tilde A_ij \\tilde A^ij = (psi^-4 A_ij)(psi^4 A^ij) = A_ij A^ij, i.e. the
magnitude has conformal weight 0 and the two entries must agree pointwise.
A2 uses AurelCore.magnitude3 (= 1/2 f_ab f^ab, the library's definition of
"magnitude", also used for shear2/omega2) whereas A2_bssnok is the plain
contraction without the 1/2.
"""
import warnings

import numpy as np

from aurel.core import AurelCore
from aurel.finitedifference import FiniteDifference

warnings.simplefilter("ignore")
N = (3, 4, 2)
param = dict(Nx=N[0], Ny=N[1], Nz=N[2], xmin=0.0, ymin=0.0, zmin=0.0,
             dx=1.0, dy=1.0, dz=1.0)
fd = FiniteDifference(param, verbose=False)
rel = AurelCore(fd, verbose=False)
rng = np.random.default_rng(4)
L = 0.3 * rng.normal(size=(3, 3) + N)
for i in range(3):
    L[i, i] += 1.5
g = np.einsum('ik...,jk...->ij...', L, L)
K = rng.normal(size=(3, 3) + N)
rel.data['gammadown3'] = 0.5 * (g + np.swapaxes(g, 0, 1))
rel.data['Kdown3'] = 0.5 * (K + np.swapaxes(K, 0, 1))
rel.freeze_data()

A2 = rel['A2']
A2t = rel['A2_bssnok']
ratio = A2t / A2
print("A2_bssnok / A2 in [%.15g, %.15g]" % (ratio.min(), ratio.max()))
assert np.allclose(A2t, A2, rtol=1e-12, atol=0), (
    "A2_bssnok != A2 although the magnitude of A_ij is conformally "
    f"invariant: ratio = {ratio.min():.12g} .. {ratio.max():.12g} "
    "(A2 = 1/2 A_ij A^ij via magnitude3, A2_bssnok = At_ij At^ij)")
print("finding 4 not reproduced (fixed)")
