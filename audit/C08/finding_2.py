"""C08 finding 2: maths.safe_division mishandles two operand kinds.

(a) int32 arrays are cast to float32 before dividing, so quotients carry
    float32 round-off (6e-8) instead of the float64 result numpy's true
    division gives for integer operands; any int32 operand also drags a
    float64 partner down.  inverse3/inverse4 (and AurelCore.gammaup3, gup4,
    nup4 ...) inherit this for int32 metric/lapse arrays, so that
    gamma^{ik} gamma_{kj} = delta only to 1e-8.  int8/int16/int64/uint
    operands are fine, which shows the cast is the culprit.
(b) For Python scalars with a complex zero divisor the "x/0 = 0" promise is
    broken by a ZeroDivisionError (a/b is evaluated eagerly inside np.where;
    np.errstate does not cover Python scalar arithmetic).
"""
import sys

import numpy as np

from aurel import maths

problems = []

# (a) values
a = np.array([16777217, 1, 5], dtype=np.int32)
b = np.array([1, 3, 0], dtype=np.int32)
got = maths.safe_division(a, b)
want = np.array([16777217.0, 1.0 / 3.0, 0.0])
if not np.array_equal(np.asarray(got, dtype=np.float64), want):
    problems.append(f"safe_division(int32, int32) = {np.asarray(got).tolist()}"
                    f" (dtype {np.asarray(got).dtype}), expected "
                    f"{want.tolist()} as for int16/int64 operands")
got = maths.safe_division(np.array([1.0, 2.0]),
                          np.array([16777217, 0], np.int32))
if float(got[0]) != 1.0 / 16777217 or got[1] != 0:
    problems.append("safe_division(float64 array, int32 array)[0] = "
                    f"{float(got[0])!r}, expected {1.0/16777217!r}")

# (a) consequence for the metric inverse
shape = (2, 2, 2)
o = np.ones(shape, dtype=np.int32)
gam = np.array([[3 * o, o, 0 * o], [o, 3 * o, o], [0 * o, o, 3 * o]])
err = {}
for dt in (np.int16, np.int32, np.int64):
    g = gam.astype(dt)
    ident = np.einsum('ij...,jk...->ik...', maths.inverse3(g), g)
    err[dt.__name__] = np.max(np.abs(
        ident - np.eye(3)[:, :, None, None, None]))
if err['int32'] > 1e-14:
    problems.append(f"inverse3(int32 metric) @ metric - identity = "
                    f"{err['int32']:.1e} (int16: {err['int16']:.1e}, "
                    f"int64: {err['int64']:.1e})")

# (b) scalar numerator, complex scalar zero divisor
for num in (1, 1.0, True, 1 + 2j):
    try:
        c = maths.safe_division(num, 0j)
        if c != 0:
            problems.append(f"safe_division({num!r}, 0j) = {c!r}, expected 0")
    except ZeroDivisionError as e:
        problems.append(f"safe_division({num!r}, 0j) raised "
                        f"ZeroDivisionError({e})")
        break

if problems:
    print("FINDING 2 reproduced:")
    for p in problems:
        print("  -", p)
    sys.exit("AssertionError: " + problems[0])
print("finding 2 not reproduced (fixed)")
