"""C08 finding 5: the rank-2 helpers of maths.py reject inputs their own
docstring admits.

getcomponents3/getcomponents4 document "f : (3, 3, ...) array_like or list of
6 components".  Only np.ndarray and *flat* lists are handled:
 - a nested list [[xx, xy, xz], [xy, yy, yz], [xz, yz, zz]] (array_like) is
   mistaken for the list of 6 components -> ValueError on unpacking,
 - a nested tuple falls through both isinstance tests, the function returns
   None and the caller dies with
   "TypeError: cannot unpack non-iterable NoneType object".
determinant3/4, inverse3/4 and format_rank2_3/4 all go through these helpers.
"""
import sys

import numpy as np

from aurel import maths

arr3 = np.array([[2.0, 1.0, 0.0], [1.0, 3.0, 0.5], [0.0, 0.5, 4.0]])
arr4 = np.array([[-2.0, 0.1, 0.2, 0.3], [0.1, 2.0, 1.0, 0.0],
                 [0.2, 1.0, 3.0, 0.5], [0.3, 0.0, 0.5, 4.0]])
cases = {
    "nested list (3,3)": (arr3.tolist(), maths.determinant3, maths.inverse3,
                          arr3),
    "nested tuple (3,3)": (tuple(map(tuple, arr3.tolist())),
                           maths.determinant3, maths.inverse3, arr3),
    "nested list (4,4)": (arr4.tolist(), maths.determinant4, maths.inverse4,
                          arr4),
}
problems = []
for label, (f, det, inv, ref) in cases.items():
    try:
        d = det(f)
        i = inv(f)
        if not (np.isclose(d, np.linalg.det(ref))
                and np.allclose(i, np.linalg.inv(ref))):
            problems.append(f"{label}: wrong value")
    except Exception as e:  # noqa: BLE001
        problems.append(f"{label}: {type(e).__name__}: {e}")

if problems:
    print("FINDING 5 reproduced:")
    for p in problems:
        print("  -", p)
    sys.exit("AssertionError: " + problems[0])
print("finding 5 not reproduced (fixed)")
