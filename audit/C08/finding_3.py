"""C08 finding 3: a directly supplied gdown4 is honoured by the 4D quantities
but silently ignored by the 3+1 quantities.

AurelCore has explicit "'gdown4' in self.data" branches (gtt, gtx, gty, gtz,
gdet) and the test-suite exercises "gdown4 provided directly"
(tests/test_aurel_functions.py::test_with_custom_metric_components).  With such
an input gdet/gup4/gtt/gtx use the supplied metric, while gammadown3, alpha,
betaup3 (hence gammadet, nup4, ndown4, gammaup4, gammadown4, uup4, ...) silently
fall back to the Minkowski defaults.  The 3+1 and 4D forms of the metric are
then mutually inconsistent and n^mu is not a unit vector of the metric in use.
"""
import sys
import warnings

import numpy as np

from aurel.core import AurelCore
from aurel.finitedifference import FiniteDifference

warnings.simplefilter("ignore")
N = (4, 4, 4)
param = dict(Nx=N[0], Ny=N[1], Nz=N[2], xmin=1.0, ymin=1.5, zmin=2.0,
             dx=0.5, dy=0.5, dz=0.5)
fd = FiniteDifference(param, verbose=False)

# Kerr-Schild Schwarzschild (M = 1): g = eta + 2H l l, l = (1, x/r, y/r, z/r)
r = fd.r
H = 1.0 / r
l = np.array([np.ones(N), fd.x / r, fd.y / r, fd.z / r])
eta = np.zeros((4, 4) + N)
eta[0, 0] = -1.0
for i in range(1, 4):
    eta[i, i] = 1.0
g4 = eta + 2 * H * np.einsum('a...,b...->ab...', l, l)
alpha_true = 1 / np.sqrt(1 + 2 * H)
beta_true = 2 * H / (1 + 2 * H) * l[1:]

rel = AurelCore(fd, verbose=False)
rel.data['gdown4'] = g4
rel.freeze_data()


def mx(a):
    return float(np.max(np.abs(a)))


problems = []
e = mx(rel['gammadown3'] - g4[1:, 1:])
if e > 1e-13:
    problems.append(f"gammadown3 != gdown4[1:,1:] (max diff {e:.2g})")
e = mx(rel['gdet'] / (-rel['alpha']**2 * rel['gammadet']) - 1)
if e > 1e-12:
    problems.append("det g != -alpha^2 det gamma "
                    f"(max relative diff {e:.2g})")
e = mx(rel['gtt'] - (-rel['alpha']**2 + rel['betamag']))
if e > 1e-13:
    problems.append(f"g_tt != -alpha^2 + beta_i beta^i (max diff {e:.2g})")
e = mx(rel['gtx'] - rel['betadown3'][0])
if e > 1e-13:
    problems.append(f"g_tx != beta_x (max diff {e:.2g})")
nn = np.einsum('ab...,a...,b...->...', rel['gdown4'], rel['nup4'],
               rel['nup4'])
if mx(nn + 1) > 1e-13:
    problems.append(f"g_ab n^a n^b + 1 = {mx(nn + 1):.2g} (n^mu not unit)")
e = mx(np.einsum('ab...,b...->a...', rel['gdown4'], rel['nup4'])
       - rel['ndown4'])
if e > 1e-13:
    problems.append(f"g_ab n^b != n_a (max diff {e:.2g})")
e = mx(rel['alpha'] - alpha_true)
if e > 1e-13:
    problems.append(f"alpha is {rel['alpha'].ravel()[0]} everywhere, the "
                    f"supplied metric has alpha in "
                    f"[{alpha_true.min():.3f}, {alpha_true.max():.3f}]")
e = mx(rel['betaup3'] - beta_true)
if e > 1e-13:
    problems.append(f"betaup3 differs from the shift of the supplied metric "
                    f"by {e:.2g}")

if problems:
    print("FINDING 3 reproduced:")
    for p in problems:
        print("  -", p)
    sys.exit("AssertionError: " + problems[0])
print("finding 3 not reproduced (fixed)")
