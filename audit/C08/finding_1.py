"""C08 finding 1: gup4 / gdet lose all accuracy for small (but positive) lapse,
and gdet depends on whether gdown4 happens to be cached.

gup4 is obtained by brute-force cofactor inversion of the assembled g_{mu nu}
and gdet switches to the 17-term determinant4(gdown4) as soon as 'gdown4' is in
the cache.  Both cancel catastrophically like eps*(|beta|/alpha)^2 although the
3+1 pieces (alpha, beta^i, gamma^{ij}) that give the exact answer
(g^{tt}=-1/alpha^2, g^{ti}=beta^i/alpha^2, g^{ij}=gamma^{ij}-beta^i beta^j/alpha^2,
det g = -alpha^2 det gamma) are all available.
"""
import sys
import warnings
from fractions import Fraction as Fr

import numpy as np

from aurel.core import AurelCore
from aurel.finitedifference import FiniteDifference

warnings.simplefilter("ignore")
N = (4, 3, 2)
param = dict(Nx=N[0], Ny=N[1], Nz=N[2], xmin=0.0, ymin=0.0, zmin=0.0,
             dx=1.0, dy=1.0, dz=1.0)


def build(alpha_value):
    fd = FiniteDifference(param, verbose=False)
    rel = AurelCore(fd, verbose=False)
    rng = np.random.default_rng(1)
    L = 0.3 * rng.normal(size=(3, 3) + N)
    for i in range(3):
        L[i, i] += 1.5
        for j in range(i + 1, 3):
            L[i, j] = 0.0
    g = np.einsum('ik...,jk...->ij...', L, L)
    g = 0.5 * (g + np.swapaxes(g, 0, 1))
    rel.data['gammadown3'] = g
    rel.data['alpha'] = np.full(N, alpha_value)
    rel.data['betaup3'] = 0.3 * rng.normal(size=(3,) + N)
    rel.freeze_data()
    return rel


def exact_3p1(rel, idx):
    """Exact rational g^{mu nu} and det g built from alpha, beta^i, gamma_ij."""
    al = Fr(float(rel.data['alpha'][idx]))
    b = [Fr(float(rel.data['betaup3'][(i,) + idx])) for i in range(3)]
    g = [[Fr(float(rel.data['gammadown3'][(i, j) + idx])) for j in range(3)]
         for i in range(3)]
    bd = [sum(g[i][j] * b[j] for j in range(3)) for i in range(3)]
    n = 4
    G = [[-al * al + sum(b[i] * bd[i] for i in range(3))] + bd]
    G += [[bd[i]] + g[i] for i in range(3)]
    A = [G[i] + [Fr(int(i == j)) for j in range(n)] for i in range(n)]
    det = Fr(1)
    for c in range(n):
        p = next(r for r in range(c, n) if A[r][c] != 0)
        if p != c:
            A[c], A[p] = A[p], A[c]
            det = -det
        det *= A[c][c]
        piv = A[c][c]
        A[c] = [v / piv for v in A[c]]
        for r in range(n):
            if r != c and A[r][c] != 0:
                f = A[r][c]
                A[r] = [vr - f * vc for vr, vc in zip(A[r], A[c])]
    inv = np.array([[float(A[i][n + j]) for j in range(n)] for i in range(n)])
    return inv, float(det)


problems = []

# --- (a) alpha = 1e-4 (e.g. collapsed lapse next to a puncture) -------------
rel = build(1e-4)
gdet_3p1 = rel['gdet'].copy()          # 'gdown4' not cached: -alpha^2 gamma
gup = rel['gup4']                      # caches gdown4
del rel.data['gdet']
gdet_after = rel['gdet']               # now determinant4(gdown4)

worst_inv = 0.0
worst_det = 0.0
for idx in [(0, 0, 0), (1, 2, 1), (3, 1, 0)]:
    inv_ex, det_ex = exact_3p1(rel, idx)
    err = np.max(np.abs(gup[(slice(None),) * 2 + idx] - inv_ex))
    worst_inv = max(worst_inv, err / np.max(np.abs(inv_ex)))
    worst_det = max(worst_det, abs(gdet_after[idx] / det_ex - 1))
hist = np.max(np.abs(gdet_after / gdet_3p1 - 1))
if worst_inv > 1e-11:
    problems.append(f"alpha=1e-4: gup4 differs from the exact inverse 4-metric "
                    f"by {worst_inv:.1e} (normwise relative)")
if worst_det > 1e-11:
    problems.append(f"alpha=1e-4: gdet differs from the exact determinant "
                    f"by {worst_det:.1e} (relative)")
if hist > 1e-11:
    problems.append(f"alpha=1e-4: gdet changes by {hist:.1e} (relative) "
                    f"depending on whether gdown4 is cached")

# --- (b) alpha = 1e-8: sign of det g and NaNs -------------------------------
rel = build(1e-8)
rel['gup4']
gdet = rel['gdet']
if np.any(gdet >= 0):
    problems.append(f"alpha=1e-8: gdet >= 0 at {np.sum(gdet >= 0)} of "
                    f"{gdet.size} points (det g must be -alpha^2 gamma < 0)")
rel_err = np.max(np.abs(gdet / (-rel['alpha']**2 * rel['gammadet']) - 1))
if rel_err > 1e-9:
    problems.append(f"alpha=1e-8: gdet vs -alpha^2 gammadet relative error "
                    f"{rel_err:.1e}")
nbad = np.sum(~np.isfinite(rel.levicivita_down4()))
if nbad:
    problems.append(f"alpha=1e-8: levicivita_down4 has {nbad} non-finite "
                    f"entries (sqrt of a positive 'gdet')")

if problems:
    print("FINDING 1 reproduced:")
    for p in problems:
        print("  -", p)
    sys.exit("AssertionError: " + problems[0])
print("finding 1 not reproduced (fixed)")
