"""C07 finding 3: periodic mode does not wrap for axes shorter than the stencil
half-width (N < fd_order/2), e.g. a 1-point axis with the DEFAULT fd_order=4.

d3_periodic pads with f[-m:] and f[:m]; for N < m these slices contain only N
planes, the padded array is too short and the centred stencil raises an opaque
IndexError.  A periodic grid of N points is a perfectly valid input (indices
wrap modulo N); with fd_order=2 the same 1-point axis works and gives 0.
The script accepts either the correct wrapped derivative or an explicit
ValueError; it fails on IndexError / wrong values.
"""
import sys
import numpy as np
from aurel.finitedifference import FiniteDifference

CENTERED = {2: [-1/2, 0, 1/2],
            4: [1/12, -2/3, 0, 2/3, -1/12],
            6: [-1/60, 3/20, -3/4, 0, 3/4, -3/20, 1/60],
            8: [1/280, -4/105, 1/5, -4/5, 0, 4/5, -1/5, 4/105, -1/280]}

rng = np.random.default_rng(0)
problems = []
for order in (2, 4, 6, 8):
    m = order // 2
    for N in range(1, m + 2):
        for axis, name in enumerate('xyz'):
            shape = [10, 11, 12]
            shape[axis] = N
            d = [0.5, 0.25, 2.0]
            param = dict(xmin=0., ymin=0., zmin=0., dx=d[0], dy=d[1], dz=d[2],
                         Nx=shape[0], Ny=shape[1], Nz=shape[2])
            fd = FiniteDifference(param, boundary='periodic', fd_order=order,
                                  verbose=False)
            f = rng.normal(size=shape)
            expected = sum(w * np.roll(f, -o, axis=axis)
                           for o, w in zip(range(-m, m + 1), CENTERED[order])
                           ) / d[axis]
            try:
                got = getattr(fd, 'd3' + name)(f)
            except ValueError:
                continue                  # explicit rejection is acceptable
            except Exception as e:
                problems.append(f"order {order} N{name}={N}: "
                                f"{type(e).__name__}: {e}")
                continue
            if got.shape != tuple(shape) or not np.allclose(got, expected,
                                                            atol=1e-12):
                problems.append(f"order {order} N{name}={N}: wrong values")

if problems:
    print("\n".join(problems))
    sys.exit("FAIL: periodic wrap breaks on axes shorter than the stencil "
             "half-width (%d cases)" % len(problems))
print("OK")
