"""C07 finding 1: integer-dtype fields give wrong edge derivatives (signed) or
raise OverflowError (unsigned) with boundary='no boundary'.

The one-sided schemes carry *integer* Python weights ((-2), (3), (4), (6), (8),
(14), ...).  NumPy keeps the integer dtype of the field for `int * int_array`,
so the product wraps around silently (signed) or raises (unsigned, negative
weight).  The centred scheme only has float weights, so interior points (and
the periodic / symmetric modes) are fine: the result depends on the mode.
"""
import sys
import warnings
import numpy as np
from aurel.finitedifference import FiniteDifference

warnings.simplefilter("ignore")
N = 16
param = dict(xmin=0., ymin=0., zmin=0., dx=1., dy=1., dz=1., Nx=N, Ny=N, Nz=N)
problems = []
for order in (2, 4, 6, 8):
    fd = FiniteDifference(param, boundary='no boundary', fd_order=order,
                          verbose=False)
    # (a) signed 32 bit field, linear ramp, every value fits in int32
    f32 = (100_000_000 * np.arange(N, dtype=np.int32))[:, None, None] \
        * np.ones((1, N, N), dtype=np.int32)
    assert f32.dtype == np.int32 and f32.max() < 2**31 - 1
    for name, op, axes in (('d3x', fd.d3x, (0, 1, 2)),
                           ('d3y', fd.d3y, (1, 0, 2)),
                           ('d3z', fd.d3z, (2, 1, 0))):
        fi = np.transpose(f32, axes)
        got = op(fi)
        ref = op(fi.astype(np.float64))       # exact: 1e8 everywhere
        err = np.abs(got - ref).max()
        if not err < 1e-3:
            rows = np.unique(np.argwhere(np.abs(got - ref) > 1e-3)[:, axes[0]])
            problems.append(
                f"order {order} {name}: int32 ramp (slope 1e8) differs from the "
                f"float64 result by {err:.3g} at indices {rows.tolist()}")
    # (b) unsigned field (e.g. a 0/1 mask or uint16 image data)
    fu = (100 * np.arange(N, dtype=np.uint16))[:, None, None] \
        * np.ones((1, N, N), dtype=np.uint16)
    try:
        got = fd.d3x(fu)
        if not np.allclose(got, 100.0):
            problems.append(f"order {order} d3x: uint16 ramp gives wrong values")
    except OverflowError as e:
        problems.append(f"order {order} d3x: uint16 field raises OverflowError: {e}")

if problems:
    print("\n".join(problems))
    sys.exit("FAIL: integer-dtype fields are not differentiated with the "
             "standard weights at the edge points (%d problems)" % len(problems))
print("OK")
