"""C07 finding 2: d3x/d3y/d3z read the *live* caller dict self.param['N*'] on every
call, while spacing, coordinates and self.Nx are snapshots taken in __init__.

If the caller re-uses / edits the parameter dict after construction (the usual
way to build a second, coarser grid in a convergence test), the FIRST object
silently returns a truncated derivative of the wrong shape, and for
'no boundary' applies the backward one-sided stencils in the middle of the
grid.  No error, history dependent result.
"""
import sys
import numpy as np
from aurel.finitedifference import FiniteDifference

problems = []
for boundary in ('no boundary', 'periodic', 'symmetric'):
    param = dict(xmin=0., ymin=0., zmin=0., dx=0.1, dy=0.1, dz=0.1,
                 Nx=32, Ny=32, Nz=32)
    fd_fine = FiniteDifference(param, boundary=boundary, fd_order=4,
                               verbose=False)
    f = np.sin(2 * np.pi * (fd_fine.x + 2 * fd_fine.y + 3 * fd_fine.z) / 3.2)
    before = [fd_fine.d3x(f), fd_fine.d3y(f), fd_fine.d3z(f)]

    # caller now builds the coarse grid from the same dict
    param['Nx'] = param['Ny'] = param['Nz'] = 16
    param['dx'] = param['dy'] = param['dz'] = 0.2
    fd_coarse = FiniteDifference(param, boundary=boundary, fd_order=4,
                                 verbose=False)

    # fd_fine still describes the fine grid ...
    assert (fd_fine.Nx, fd_fine.dx, fd_fine.x.shape) == (32, 0.1, (32, 32, 32))
    # ... but its derivative operators changed
    for name, op, ref in zip(('d3x', 'd3y', 'd3z'),
                             (fd_fine.d3x, fd_fine.d3y, fd_fine.d3z), before):
        try:
            after = op(f)
        except Exception as e:           # an error would at least not be silent
            problems.append(f"{boundary} {name}: raises {type(e).__name__}: {e}")
            continue
        if after.shape != ref.shape:
            problems.append(f"{boundary} {name}: shape {after.shape} after the "
                            f"caller edited its dict, was {ref.shape}")
        elif not np.array_equal(after, ref):
            problems.append(f"{boundary} {name}: values changed")

if problems:
    print("\n".join(problems))
    sys.exit("FAIL: derivative of an existing FiniteDifference object depends on "
             "later edits of the caller's param dict (%d problems)" % len(problems))
print("OK")
