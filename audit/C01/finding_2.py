"""C01 finding 2: st_Weyl_down4 and everything built on it (Weyl_Psi, Psi4_lm,
Weyl_invariants, eweyl_u_down4, bweyl_u_down4) depend on whether
'st_Riemann_down4' happens to sit in the cache.

AurelCore.st_Weyl_down4 branches on `"st_Riemann_down4" in self.data`:
  - present  -> Weyl = Riemann - Ricci terms (Ricci from the Einstein equation)
  - absent   -> Weyl rebuilt from the electric/magnetic parts E_ij, B_ij
The two constructions only coincide for data that satisfy the constraints
exactly, so a previous request of e.g. the Kretschmann scalar (which caches
st_Riemann_down4), or the clean-up period (which decides whether that entry is
still there), changes the returned Weyl tensor, Psi2 and the Weyl invariants (Psi4 is only
affected at truncation level, because the Ricci terms drop out of it).
"""
import numpy as np
import aurel

N = 10
param = {'Nx': N, 'Ny': N, 'Nz': N,
         'xmin': -1.0, 'ymin': -1.0, 'zmin': -1.0,
         'dx': 0.2, 'dy': 0.2, 'dz': 0.2}
fd = aurel.FiniteDifference(param, verbose=False)


def fresh(**kw):
    """Matter-free perturbed slice (not an exact solution of the constraints,
    like any finite-resolution simulation output)."""
    rel = aurel.AurelCore(fd, verbose=False, **kw)
    x, y, z = fd.x, fd.y, fd.z
    rel.data['gxx'] = 1.0 + 0.2 * np.sin(z + 0.3 * x)
    rel.data['gyy'] = 1.0 - 0.2 * np.sin(z + 0.3 * x) + 0.05 * np.cos(y)
    rel.data['gzz'] = 1.0 + 0.1 * x * y
    rel.data['gxy'] = 0.05 * np.cos(z)
    rel.data['kxx'] = 0.1 * np.cos(z)
    rel.data['kyy'] = -0.1 * np.cos(z) + 0.02 * x
    rel.data['kxy'] = 0.03 * np.sin(z + y)
    rel.freeze_data()          # as the README asks
    return rel


def reldiff(a, b):
    a = np.asarray(a)
    b = np.asarray(b)
    scale = max(np.max(np.abs(a)), np.max(np.abs(b)))
    return np.max(np.abs(a - b)) / scale if scale > 0 else 0.0


nocleaning = dict(clear_cache_every_nbr_calc=10**9, memory_threshold_inGB=1e9)
getters = {
    'st_Weyl_down4': lambda r: r['st_Weyl_down4'],
    'Weyl_Psi[2]': lambda r: r['Weyl_Psi'][2],
    'Weyl_invariants[I]': lambda r: r['Weyl_invariants']['I'],
    'eweyl_u_down4': lambda r: r['eweyl_u_down4'],
}
failures = []
for name, get in getters.items():
    ref = get(fresh(**nocleaning))        # fresh instance, single request
    rel = fresh(**nocleaning)
    rel['Kretschmann']                    # unrelated earlier request
    d = reldiff(ref, get(rel))
    if d > 1e-8:
        failures.append(f"{name}: after rel['Kretschmann'] differs from a "
                        f"fresh instance by {d:.3g} (relative)")

# same instance, same two requests, only the clean-up period changes
out = {}
for every in (10**9, 1):
    rel = fresh(clear_cache_every_nbr_calc=every, memory_threshold_inGB=1e9)
    rel['Kretschmann']
    out[every] = rel['st_Weyl_down4']
d = reldiff(out[10**9], out[1])
if d > 1e-8:
    failures.append("st_Weyl_down4 after ['Kretschmann', 'st_Weyl_down4']: "
                    "clear_cache_every_nbr_calc=1 vs no cleaning differ by "
                    f"{d:.3g} (relative)")

assert not failures, "cache is not transparent:\n  " + "\n  ".join(failures)
print("OK")
