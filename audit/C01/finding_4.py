"""C01 finding 4: requesting a no-argument helper through rel[...] fails the
first time and silently succeeds the second time.

AurelCore.__getitem__ is written for "any attribute name": helpers that take
arguments are returned as functions (rel['s_covd'] works).  A helper that takes
no argument (kronecker_delta3, levicivita_down3, levicivita_down4,
levicivita_symbol_down3/4, tetrad_base, null_vector_base) is treated like a
description key: its value is stored in rel.data FIRST and then
`descriptions[key]` raises KeyError, before calculation_count / last_accessed
are updated.  The half-finished entry stays in the cache, so the very same
request succeeds the next time: the outcome depends on the request history.
"""
import numpy as np
import aurel

N = 6
param = {'Nx': N, 'Ny': N, 'Nz': N,
         'xmin': -1.0, 'ymin': -1.0, 'zmin': -1.0,
         'dx': 0.4, 'dy': 0.4, 'dz': 0.4}
fd = aurel.FiniteDifference(param, verbose=False)

failures = []
for key in ('kronecker_delta3', 'levicivita_down3', 'levicivita_down4',
            'tetrad_base', 'null_vector_base'):
    rel = aurel.AurelCore(fd, verbose=False)
    rel.data['gxx'] = 1.0 + 0.1 * fd.x**2
    rel.freeze_data()
    outcome = []
    for _ in range(2):
        try:
            v = rel[key]
            outcome.append('function' if callable(v) else 'value')
        except KeyError as e:
            outcome.append(f'KeyError({e})')
    if outcome[0] != outcome[1]:
        failures.append(f"rel['{key}']: 1st request -> {outcome[0]}, "
                        f"2nd request -> {outcome[1]}")
    if any(o.startswith('KeyError') for o in outcome) and key in rel.data:
        failures.append(f"rel['{key}'] raised but left an entry in rel.data")

assert not failures, ("request outcome depends on history:\n  "
                      + "\n  ".join(failures))
print("OK")
