"""C01 finding 1: st_Ricci_down4 (and st_RicciS, Einsteindown4) depend on
whether 'Tdown4' happens to sit in the cache.

AurelCore.st_Ricci_down4 branches on `"Tdown4" in self.data`.  Tdown4 is never
a user input here: it is a lazily computed quantity, so the test really asks
"has somebody requested a matter quantity before?".  The two branches only agree
when the input data satisfy the Hamiltonian/momentum constraints exactly, which
generic input (and any finite-resolution simulation output) does not.
"""
import sys
import numpy as np
import aurel

N = 10
param = {'Nx': N, 'Ny': N, 'Nz': N,
         'xmin': -1.0, 'ymin': -1.0, 'zmin': -1.0,
         'dx': 0.2, 'dy': 0.2, 'dz': 0.2}
fd = aurel.FiniteDifference(param, verbose=False)


def fresh(**kw):
    """Conformally flat 3-metric, K_ij = 0, no matter: H = R^(3) != 0."""
    rel = aurel.AurelCore(fd, verbose=False, **kw)
    psi4 = (1.0 + 0.1 * np.sin(fd.x) * np.cos(fd.y) + 0.05 * fd.z**2)**4
    for k in ('gxx', 'gyy', 'gzz'):
        rel.data[k] = psi4.copy()
    rel.freeze_data()          # as the README asks
    return rel


def reldiff(a, b):
    scale = max(np.max(np.abs(a)), np.max(np.abs(b)))
    return np.max(np.abs(a - b)) / scale if scale > 0 else 0.0


nocleaning = dict(clear_cache_every_nbr_calc=10**9, memory_threshold_inGB=1e9)
failures = []

for key in ('st_Ricci_down4', 'st_RicciS', 'Einsteindown4'):
    # reference: a fresh instance holding only the inputs
    ref = fresh(**nocleaning)[key]

    # (a) same request after an unrelated request (the Hamiltonian constraint)
    rel = fresh(**nocleaning)
    rel['Hamiltonian']
    d = reldiff(ref, rel[key])
    if d > 1e-8:
        failures.append(f"{key}: after rel['Hamiltonian'] differs from a "
                        f"fresh instance by {d:.3g} (relative)")

# (b) same instance, same sequence, only the clean-up period changes
seq = ['st_Ricci_down4', 'gammadet', 'Tdown4', 'st_Ricci_down4']
out = {}
for every in (10**9, 1):
    rel = fresh(clear_cache_every_nbr_calc=every, memory_threshold_inGB=1e9)
    for k in seq:
        v = rel[k]
    out[every] = v
d = reldiff(out[10**9], out[1])
if d > 1e-8:
    failures.append("st_Ricci_down4 at the end of " + str(seq)
                    + f": clear_cache_every_nbr_calc=1 vs no cleaning differ"
                    f" by {d:.3g} (relative)")

assert not failures, "cache is not transparent:\n  " + "\n  ".join(failures)
print("OK")
