"""C01 finding 5 (borderline, see findings.md): AurelCore.load_data() replaces
the input fields but keeps every cached derived quantity.

load_data(sim_data, iteration) is the library's own loader for "each key has a
list of values for each iteration".  Calling it for a second iteration on the
same instance overwrites the inputs in rel.data and leaves all previously
computed entries in place, so every later request silently returns the value
of the iteration that was requested first, and rel.data becomes internally
inconsistent (rel['gxx'] is the new field, rel['gammadown3'][0,0] the old one).
"""
import numpy as np
import aurel

N = 8
param = {'Nx': N, 'Ny': N, 'Nz': N,
         'xmin': -1.0, 'ymin': -1.0, 'zmin': -1.0,
         'dx': 0.25, 'dy': 0.25, 'dz': 0.25}
fd = aurel.FiniteDifference(param, verbose=False)
x, y = fd.x, fd.y
sim = {'gxx': [1.0 + 0.1 * np.sin(x), 2.0 + 0.3 * np.cos(y)],
       'kxx': [0.1 * x, 0.2 * y]}

# one instance re-used over the iterations
rel = aurel.AurelCore(fd, verbose=False)
reused = []
for it in range(2):
    rel.load_data(sim, it)
    reused.append(np.array(rel['Ktrace']))

# reference: a fresh instance holding only the inputs of that iteration
ref = []
for it in range(2):
    r = aurel.AurelCore(fd, verbose=False)
    r.load_data(sim, it)
    ref.append(np.array(r['Ktrace']))

failures = []
if not np.allclose(reused[1], ref[1], rtol=1e-12, atol=0):
    failures.append(
        "Ktrace after load_data(sim, 1) on a re-used instance differs from a "
        f"fresh instance by {np.max(np.abs(reused[1] - ref[1])):.3g}; "
        f"identical to iteration 0: {np.array_equal(reused[1], ref[0])}")
if not np.array_equal(rel['gammadown3'][0, 0], rel['gxx']):
    failures.append("rel['gammadown3'][0,0] != rel['gxx'] after the second "
                    "load_data: stale derived entries kept in the cache")

assert not failures, "stale cache after load_data:\n  " + "\n  ".join(failures)
print("OK")
