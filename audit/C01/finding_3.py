"""C01 finding 3: gdet depends on whether 'gdown4' happens to sit in the cache.

AurelCore.gdet branches on `'gdown4' in self.data`:
  - absent  -> gdet = -alpha^2 * gammadet                (accurate)
  - present -> gdet = determinant4(gdown4), where gdown4[0,0] = -alpha^2 +
               beta_i beta^i was itself computed by the class.
With a small lapse and a non-zero shift (collapsed lapse near a puncture) the
second form subtracts O(beta^2) numbers to get an O(alpha^2) result: the value
of rel['gdet'] then differs from what a fresh instance returns by far more than
rounding, and for alpha = 0 it even gets the wrong sign so that
levicivita_down4() = sqrt(-gdet) turns into NaN.  Any earlier request that
caches gdown4 (gdown4, gup4, udown4, Tdown4, ...) flips the branch.
"""
import warnings
import numpy as np
import aurel

warnings.filterwarnings("ignore")
N = 8
param = {'Nx': N, 'Ny': N, 'Nz': N,
         'xmin': -1.0, 'ymin': -1.0, 'zmin': -1.0,
         'dx': 0.25, 'dy': 0.25, 'dz': 0.25}
fd = aurel.FiniteDifference(param, verbose=False)


def fresh(alpha0):
    rel = aurel.AurelCore(fd, verbose=False,
                          clear_cache_every_nbr_calc=10**9)
    rel.data['alpha'] = alpha0 * (1.0 + 0.1 * np.sin(fd.x))
    rel.data['betax'] = 0.3 + 0.01 * fd.y
    rel.data['gxx'] = 1.3 + 0.1 * np.cos(fd.z)
    rel.freeze_data()
    return rel


failures = []

# (a) collapsed but non-zero lapse
ref = fresh(1e-7)['gdet']                  # fresh instance, single request
rel = fresh(1e-7)
rel['gup4']                                # earlier request caching gdown4
hist = rel['gdet']
d = np.max(np.abs(hist - ref) / np.abs(ref))
if d > 1e-9:
    failures.append(f"alpha~1e-7: rel['gdet'] after rel['gup4'] differs from "
                    f"a fresh instance by {d:.3g} (relative)")

# (b) lapse exactly zero: fresh instance gives gdet = 0, history gives noise
ref = fresh(0.0)['gdet']
rel = fresh(0.0)
rel['gup4']
hist = rel['gdet']
if not np.array_equal(ref, hist):
    failures.append(f"alpha=0: fresh gdet is identically {ref.max()}, after "
                    f"rel['gup4'] it has {np.sum(hist > 0)} positive entries "
                    f"(max |gdet| = {np.abs(hist).max():.3g})")

assert not failures, "cache is not transparent:\n  " + "\n  ".join(failures)
print("OK")
