"""C10 finding 2: with a negative lapse the Weyl tensor assembled from E/B
(used whenever st_Riemann_down4 is not cached) has the wrong sign in its
magnetic part and disagrees with the Weyl tensor obtained from the Riemann
tensor; bweyl_n_down3 is minus the n-frame contraction of the Weyl tensor.

Data: exact vacuum Kasner solution  ds^2 = -dT^2 + sum_i T^(2 p_i) dx_i^2
written in the tilted time coordinate T = t + eps*x  (non trivial lapse and
shift, B_ij != 0 on the slices t = const).  The same spacetime is described
by (alpha, K_ij) and by (-alpha, -K_ij): g_{mu nu} is identical.
The library's own Schwarzschild_isotropic solution has a negative lapse
inside r < M/2, so a negative lapse is an input the library itself produces.
"""
import sys
import numpy as np
import aurel

p = np.array([-2.0, 3.0, 6.0]) / 7.0      # Kasner exponents
eps = 0.4
t0 = 1.0
Nx, Ny, Nz = 40, 10, 10
param = {'Nx': Nx, 'Ny': Ny, 'Nz': Nz, 'xmin': 1.0, 'ymin': 0.0, 'zmin': 0.0,
         'dx': 1.0 / Nx, 'dy': 0.1, 'dz': 0.1}
fd = aurel.FiniteDifference(param, boundary='no boundary', fd_order=6,
                            verbose=False)
T = t0 + eps * fd.x
zero = np.zeros_like(T)
gd = [T**(2 * p[0]) - eps**2, T**(2 * p[1]), T**(2 * p[2])]      # gamma_ii
dTg = [2 * p[i] * T**(2 * p[i] - 1) for i in range(3)]           # d gamma/dT
betax_up = -eps / gd[0]
alpha = np.sqrt(1.0 + eps**2 / gd[0])
# K_ij = -(1/2 alpha)(d_t gamma_ij - D_i beta_j - D_j beta_i), beta_j=(-eps,0,0)
# D_i beta_j = eps * Gamma^x_ij
Gx = [eps * dTg[0] / (2 * gd[0]), -eps * dTg[1] / (2 * gd[0]),
      -eps * dTg[2] / (2 * gd[0])]
Kd = [-(dTg[i] - 2 * eps * Gx[i]) / (2 * alpha) for i in range(3)]


def make(sign, riemann_first):
    rel = aurel.AurelCore(fd, verbose=False, vacuum=True)
    rel.data['gammadown3'] = np.array([[gd[0], zero, zero],
                                       [zero, gd[1], zero],
                                       [zero, zero, gd[2]]])
    rel.data['Kdown3'] = sign * np.array([[Kd[0], zero, zero],
                                          [zero, Kd[1], zero],
                                          [zero, zero, Kd[2]]])
    rel.data['alpha'] = sign * alpha
    rel.data['betaup3'] = np.array([betax_up, zero, zero])
    rel.freeze_data()
    if riemann_first:
        rel['st_Riemann_down4']
    return rel, rel['st_Weyl_down4']


def rel_diff(a, b):
    c = (Ellipsis, slice(8, -8), slice(None), slice(None))
    return np.max(abs(a[c] - b[c])) / np.max(abs(b[c]))


out = {}
for sign in (+1, -1):
    relA, WA = make(sign, True)
    relB, WB = make(sign, False)
    # magnetic part in the n frame from the (Riemann based) Weyl tensor
    nup = relA['nup4']
    LC = relA.levicivita_down4()
    LCuudd = np.einsum('ac...,bd...,abef...->cdef...',
                       relA['gup4'], relA['gup4'], LC)
    Bcontr = 0.5 * np.einsum('b...,f...,abcd...,cdef...->ae...',
                             nup, nup, WA, LCuudd)[1:, 1:]
    out[sign] = (rel_diff(WB, WA), rel_diff(relB['bweyl_n_down3'], Bcontr), WA)
    print(f"lapse sign {sign:+d}: |Weyl(E,B) - Weyl(Riemann)|/|Weyl| = "
          f"{out[sign][0]:.2e},  |B_n - contraction|/|B| = {out[sign][1]:.2e}")

print("Weyl(Riemann) identical for both signs:",
      rel_diff(out[-1][2], out[+1][2]))
assert out[+1][0] < 1e-4 and out[+1][1] < 1e-4, "reference case broken"
assert out[-1][0] < 1e-4, (
    "negative lapse: the Weyl tensor built from E/B differs from the one "
    f"built from the Riemann tensor by a relative {out[-1][0]:.2f}")
assert out[-1][1] < 1e-4, (
    "negative lapse: bweyl_n_down3 is not the n-frame magnetic contraction "
    f"of the Weyl tensor (relative difference {out[-1][1]:.2f})")
sys.exit(0)
