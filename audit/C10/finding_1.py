"""C10 finding 1: vacuum=True together with a cosmological constant.

AurelCore documents `vacuum` as "assume vacuum spacetime (no matter)" and
`Lambda` as an independent constructor option.  De Sitter space (flat slicing,
gamma_ij = a^2 delta_ij, K_ij = -H a^2 delta_ij, Lambda = 3 H^2) contains no
matter, so vacuum=True is consistent with the data.  It is conformally flat:
the Weyl tensor vanishes identically (and nothing here depends on finite
differences, the data are homogeneous).

Observed: with the Riemann tensor cached, st_Weyl_down4 returns the (itself
wrong) Riemann tensor, which is neither zero nor trace free, and disagrees
with the construction from E/B (which correctly gives zero).
"""
import sys
import numpy as np
import aurel

N = 10
param = {'Nx': N, 'Ny': N, 'Nz': N, 'xmin': 0.5, 'ymin': 0.5, 'zmin': 0.5,
         'dx': 1.0, 'dy': 1.0, 'dz': 1.0}
fd = aurel.FiniteDifference(param, boundary='periodic', fd_order=4,
                            verbose=False)
H, a = 0.3, 1.7
Lam = 3 * H**2


def make(vacuum):
    rel = aurel.AurelCore(fd, verbose=False, Lambda=Lam, vacuum=vacuum)
    one = np.ones(fd.x.shape)
    for k in ('gxx', 'gyy', 'gzz'):
        rel.data[k] = a * a * one
    for k in ('kxx', 'kyy', 'kzz'):
        rel.data[k] = -H * a * a * one
    rel.freeze_data()
    return rel


res = {}
for vacuum in (False, True):
    relA = make(vacuum)
    Riem = relA['st_Riemann_down4']          # Riemann cached ...
    WA = relA['st_Weyl_down4']               # ... Weyl from Riemann
    relB = make(vacuum)
    WB = relB['st_Weyl_down4']               # Weyl from E and B
    g = relA['gdown4']
    Riem_exact = (Lam / 3) * (np.einsum('ac...,bd...->abcd...', g, g)
                              - np.einsum('ad...,bc...->abcd...', g, g))
    trace = np.einsum('ac...,abcd...->bd...', relA['gup4'], WA)
    res[vacuum] = dict(WA=np.max(abs(WA)), WB=np.max(abs(WB)),
                       trace=np.max(abs(trace)),
                       riem=np.max(abs(Riem - Riem_exact)))
    print(f"vacuum={vacuum}: max|Weyl from Riemann|={res[vacuum]['WA']:.3e} "
          f"max|Weyl from E,B|={res[vacuum]['WB']:.3e} "
          f"max|trace|={res[vacuum]['trace']:.3e} "
          f"max|Riemann-exact|={res[vacuum]['riem']:.3e}")

r = res[False]
assert max(r['WA'], r['WB'], r['trace'], r['riem']) < 1e-12, "reference broken"
r = res[True]
assert r['WA'] < 1e-12, (
    "vacuum=True, Lambda=3H^2 (de Sitter): Weyl tensor from the cached "
    f"Riemann tensor is not zero (max {r['WA']:.3f}) while the E/B "
    f"construction gives {r['WB']:.1e}")
assert r['trace'] < 1e-12, f"Weyl tensor not trace free: {r['trace']:.3f}"
assert r['riem'] < 1e-12, f"Riemann tensor wrong by {r['riem']:.3f}"
sys.exit(0)
