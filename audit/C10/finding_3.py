"""C10 finding 3: the tetrad option is documented as "also attribute", but
changing it after Weyl_Psi / Weyl_invariants were computed has no effect:
the cached scalars stay those of the old tetrad, so they are no longer the
components of st_Weyl_down4 on the null tetrad that null_vector_base() returns
(and depend on the order of operations).
"""
import sys
import numpy as np
import aurel

N = 12
L = 2 * np.pi
param = {'Nx': N, 'Ny': N, 'Nz': N, 'xmin': 0.3, 'ymin': 0.4, 'zmin': 0.5,
         'dx': L / N, 'dy': L / N, 'dz': L / N}
fd = aurel.FiniteDifference(param, boundary='periodic', fd_order=4,
                            verbose=False)


def make(tetrad):
    rel = aurel.AurelCore(fd, verbose=False, tetrad=tetrad)
    one = np.ones(fd.x.shape)
    rel.data['gxx'] = 1.5 + 0.2 * np.sin(fd.y)
    rel.data['gyy'] = 1.2 + 0.1 * np.cos(fd.z)
    rel.data['gxy'] = 0.1 * np.sin(fd.z)
    rel.data['kxy'] = 0.1 * np.cos(fd.z) * one
    rel.data['kzz'] = 0.2 * np.sin(fd.x) * one
    rel.data['alpha'] = 1.5 + 0.2 * np.cos(fd.x)
    rel.data['betax'] = 0.1 * np.sin(fd.y)
    rel.freeze_data()
    return rel


def psi_on_returned_tetrad(rel):
    l, k, m, mb = rel.null_vector_base()
    C = rel['st_Weyl_down4']
    e = 'abcd...,a...,b...,c...,d...->...'
    return [np.einsum(e, C, k, m, k, m), np.einsum(e, C, l, k, m, k),
            np.einsum(e, C, k, m, mb, l), np.einsum(e, C, k, l, mb, l),
            np.einsum(e, C, l, mb, l, mb)]


rel = make('quasi-Kinnersley')
rel['Weyl_invariants']                       # computed with the default tetrad
rel.tetrad = 'fluid'                         # documented attribute
psi = rel['Weyl_Psi']
expected = psi_on_returned_tetrad(rel)
fresh = make('fluid')['Weyl_Psi']
d_returned = max(np.max(abs(psi[i] - expected[i])) for i in range(5))
d_fresh = max(np.max(abs(psi[i] - fresh[i])) for i in range(5))
dI = np.max(abs(rel['Weyl_invariants']['I']
                - make('fluid')['Weyl_invariants']['I']))
scale = max(np.max(abs(f)) for f in fresh)
print(f"max|Weyl_Psi - components on returned tetrad| = {d_returned:.3e}")
print(f"max|Weyl_Psi - Weyl_Psi of a fresh object with same tetrad| = "
      f"{d_fresh:.3e}  (scale {scale:.3e}),  |I - I_fresh| = {dI:.3e}")
assert d_returned < 1e-10 * scale and d_fresh < 1e-10 * scale, (
    "after rel.tetrad = 'fluid' the Weyl scalars are still those of the "
    "quasi-Kinnersley tetrad: they are not the components on the tetrad "
    f"returned by null_vector_base() (difference {d_returned:.3e}, "
    f"scale {scale:.3e})")
sys.exit(0)
