"""C10 finding 4: Weyl_invariants raises TypeError as soon as the data contain
Weyl_Psi4r / Weyl_Psi4i (the names under which aurel.reading maps the Einstein
Toolkit WeylScal4 output Psi4r / Psi4i), although the metric data needed to
compute all five Weyl scalars are available.  Weyl_Psi then returns
[None, None, None, None, Psi4] and Weyl_invariants multiplies None.
"""
import sys
import numpy as np
import aurel

N = 12
L = 2 * np.pi
param = {'Nx': N, 'Ny': N, 'Nz': N, 'xmin': 0.3, 'ymin': 0.4, 'zmin': 0.5,
         'dx': L / N, 'dy': L / N, 'dz': L / N}
fd = aurel.FiniteDifference(param, boundary='periodic', fd_order=4,
                            verbose=False)


def make(with_psi4):
    rel = aurel.AurelCore(fd, verbose=False)
    one = np.ones(fd.x.shape)
    sim = {'gxx': [1.5 + 0.2 * np.sin(fd.y)],
           'gyy': [1.2 + 0.1 * np.cos(fd.z)],
           'kxy': [0.1 * np.cos(fd.z) * one]}
    if with_psi4:
        # what a simulation with WeylScal4 output provides in addition
        ref = make(False)['Weyl_Psi'][4]
        sim['Weyl_Psi4r'] = [np.real(ref)]
        sim['Weyl_Psi4i'] = [np.imag(ref)]
    rel.load_data(sim, 0)
    return rel


expected = make(False)['Weyl_invariants']
rel = make(True)
try:
    inv = rel['Weyl_invariants']
except TypeError as e:
    raise AssertionError(
        "Weyl_invariants fails when Weyl_Psi4r/Weyl_Psi4i are part of the "
        f"loaded data: TypeError: {e}") from None
for k in ('I', 'J'):
    assert np.allclose(inv[k], expected[k], rtol=1e-10, atol=1e-14), k
sys.exit(0)
