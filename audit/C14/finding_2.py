"""C14 finding 2: custom variable functions are validated on an EMPTY AurelCore
instance, so any function that reads a non-built-in column of the input table
(or an earlier custom variable) is rejected and silently dropped."""
import contextlib
import io
import warnings

import numpy as np

import aurel
from aurel.solutions import EdS as sol

warnings.simplefilter("ignore")
N = 8
fd = aurel.FiniteDifference(
    {'Nx': N, 'Ny': N, 'Nz': N, 'xmin': 0.0, 'ymin': 0.0, 'zmin': 0.0,
     'dx': 20.0, 'dy': 20.0, 'dz': 20.0}, verbose=False)
x, y, z = fd.cartesian_coords
tarray = [1.0, 3.0, 5.0]
data = {'t': list(tarray),
        'gammadown3': [sol.gammadown3(t, x, y, z) for t in tarray],
        'Kdown3': [sol.Kdown3(t, x, y, z) for t in tarray],
        'rho': [sol.rho(t) * np.ones((N, N, N)) for t in tarray],
        # an extra (non-aurel) field carried by the table, e.g. a scalar field
        'phi_field': [np.sin(x / 40) * t for t in tarray]}


def over_time(d, **kw):
    out = io.StringIO()
    with contextlib.redirect_stdout(out), contextlib.redirect_stderr(out):
        return aurel.over_time(dict(d), fd, verbose=False, **kw), out.getvalue()


errors = []

# (a) custom variable built from an input column of the table
res, log = over_time(data, vars=[{'phi2': lambda rel: rel['phi_field']**2}])
if 'phi2' not in res:
    errors.append("custom variable 'phi2' = rel['phi_field']**2 was dropped: "
                  + log.strip().splitlines()[0])
else:
    assert np.array_equal(res['phi2'], np.array(data['phi_field'])**2)

# (b) custom variable built from an earlier custom variable of the same call
res, log = over_time(data, vars=[{'a': lambda rel: 2 * rel['gxx']},
                                 {'b': lambda rel: rel['a'] + 1}])
if 'b' not in res:
    errors.append("custom variable 'b' = rel['a'] + 1 (a: earlier custom "
                  "variable) was dropped: " + log.strip().splitlines()[0])
else:
    assert np.array_equal(res['b'], res['a'] + 1)

# (c) ... or of an earlier over_time call (then 'a' is a table column)
res1, _ = over_time(data, vars=[{'a': lambda rel: 2 * rel['gxx']}])
res2, log = over_time(res1, vars=[{'b': lambda rel: rel['a'] + 1}])
if 'b' not in res2:
    errors.append("split over two calls: custom variable 'b' = rel['a'] + 1 "
                  "was dropped: " + log.strip().splitlines()[0])

assert not errors, "valid custom variables are not computed:\n  " + "\n  ".join(errors)
print("finding_2: OK")
