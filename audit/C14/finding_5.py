"""C14 finding 5: over_time documents the keyword `tetrad_to_use` ("tetrad
choice for Weyl calculations") but AurelCore only knows `tetrad`; the documented
keyword is swallowed as an unused attribute and has no effect."""
import contextlib
import io
import warnings

import numpy as np

import aurel
from aurel.solutions import EdS as sol

warnings.simplefilter("ignore")
N = 8
fd = aurel.FiniteDifference(
    {'Nx': N, 'Ny': N, 'Nz': N, 'xmin': -70.0, 'ymin': -70.0, 'zmin': -70.0,
     'dx': 20.0, 'dy': 20.0, 'dz': 20.0}, verbose=False)
x, y, z = fd.cartesian_coords
tarray = [1.0, 3.0]
data = {'t': list(tarray),
        'gammadown3': [sol.gammadown3(t, x, y, z)
                       * (1 + 0.01 * np.sin(x / 30) * np.cos(y / 25))
                       for t in tarray],
        'Kdown3': [sol.Kdown3(t, x, y, z) for t in tarray],
        'rho': [sol.rho(t) * np.ones((N, N, N)) for t in tarray]}


def over_time(**kw):
    with contextlib.redirect_stdout(io.StringIO()), \
            contextlib.redirect_stderr(io.StringIO()):
        return aurel.over_time(dict(data), fd, vars=['Weyl_Psi'],
                               verbose=False, **kw)['Weyl_Psi']


default = over_time()
with_core_kw = over_time(tetrad='other')
assert not np.array_equal(default, with_core_kw, equal_nan=True), \
    "test data not sensitive to the tetrad"

if 'tetrad_to_use' in aurel.over_time.__doc__:
    with_doc_kw = over_time(tetrad_to_use='other')
    assert np.array_equal(with_doc_kw, with_core_kw, equal_nan=True), (
        "over_time documents the keyword 'tetrad_to_use' but passing "
        "tetrad_to_use='other' is ignored: Weyl_Psi identical to the default "
        f"tetrad = {np.array_equal(with_doc_kw, default, equal_nan=True)}")
print("finding_5: OK")
