"""C14 finding 1: values of built-in variables depend on the order of `vars`,
on how the requests are split over successive over_time calls and on the
AurelCore cache options (history-dependent branches `if "X" in self.data`)."""
import contextlib
import io
import warnings

import numpy as np

import aurel

warnings.simplefilter("ignore")
N = 8
L = N * 20.0
fd = aurel.FiniteDifference(
    {'Nx': N, 'Ny': N, 'Nz': N, 'xmin': -L/2 + 3, 'ymin': -L/2 + 1,
     'zmin': -L/2 + 2, 'dx': 20.0, 'dy': 20.0, 'dz': 20.0},
    boundary='periodic', verbose=False)
x, y, z = fd.cartesian_coords
w = 2 * np.pi / L

# Generic smooth 3+1 data (as produced by any code: it does not satisfy the
# Einstein constraints exactly, which is what 'Hamiltonian' is there to measure)
data = {k: [] for k in ['it', 'gammadown3', 'Kdown3', 'rho', 'alpha', 'betaup3']}
for i in range(2):
    psi = 1 + 0.05 * (i + 1) * np.sin(w * x) * np.cos(w * y)
    g = np.zeros((3, 3, N, N, N))
    K = np.zeros((3, 3, N, N, N))
    for a in range(3):
        g[a, a] = psi**4
        K[a, a] = -0.1 * psi**4 * (1 + 0.2 * np.cos(w * z))
    g[0, 1] = g[1, 0] = 0.05 * np.sin(w * z)
    data['it'].append(i)
    data['gammadown3'].append(g)
    data['Kdown3'].append(K)
    data['rho'].append(0.3 + 0.1 * np.sin(w * x))
    data['alpha'].append(1 + 0.1 * np.cos(w * x))
    data['betaup3'].append(np.array(
        [0.05 * np.sin(w * y), 0 * x, 0.02 * np.cos(w * x)]))


def over_time(d, **kw):
    with contextlib.redirect_stdout(io.StringIO()), \
            contextlib.redirect_stderr(io.StringIO()):
        return aurel.over_time(dict(d), fd, verbose=False, **kw)


def close(a, b):
    a = np.asarray(a)
    b = np.asarray(b)
    scale = max(np.max(abs(a)), np.max(abs(b)))
    return np.max(abs(a - b)) <= 1e-9 * scale, np.max(abs(a - b)) / scale


V = 'st_Ricci_down4'

# fresh, independent per-step calculation
fresh = []
for i in range(2):
    rel = aurel.AurelCore(fd, verbose=False)
    for k in data:
        rel.data[k] = data[k][i]
    rel.freeze_data()
    fresh.append(rel[V])

errors = []

# (1) order of the requested variables
A = over_time(data, vars=[V, 'Hamiltonian'])[V]
B = over_time(data, vars=['Hamiltonian', V])[V]
ok, rel_diff = close(A, B)
if not ok:
    errors.append(f"vars order: {V} differs between vars=[{V!r},'Hamiltonian'] "
                  f"and vars=['Hamiltonian',{V!r}], relative diff {rel_diff:.2e}")
ok, rel_diff = close(B, fresh)
if not ok:
    errors.append(f"vars=['Hamiltonian',{V!r}]: {V} differs from a fresh "
                  f"per-step calculation, relative diff {rel_diff:.2e}")

# (2) AurelCore cache options must not change values
C = over_time(data, vars=['Hamiltonian', V], clear_cache_every_nbr_calc=1)[V]
ok, rel_diff = close(B, C)
if not ok:
    errors.append("cache option: clear_cache_every_nbr_calc=1 changes "
                  f"{V} (vars=['Hamiltonian',{V!r}]), relative diff {rel_diff:.2e}")

# (3) split of the requests over successive calls
single = over_time(data, vars=[V, 'Tdown4'])
split = over_time(over_time(data, vars=['Tdown4']), vars=[V])
ok, rel_diff = close(single[V], split[V])
if not ok:
    errors.append(f"split: vars=[{V!r},'Tdown4'] in one call vs 'Tdown4' then "
                  f"{V!r} in two calls, relative diff {rel_diff:.2e}")

assert not errors, "over_time results are history dependent:\n  " + "\n  ".join(errors)
print("finding_1: OK")
