"""C14 finding 4: the estimate column name '<var>_<estimate>' collides with
built-in variable names ('Hamiltonian' + 'norm' = 'Hamiltonian_norm',
'Momentumx' + 'norm', 'rho' + 'n', ...). Whichever is computed first silently
suppresses the other, so the final table depends on how the requests are split
over successive calls, and a requested variable / estimate is lost."""
import contextlib
import io
import warnings

import numpy as np

import aurel
from aurel.solutions import EdS as sol

warnings.simplefilter("ignore")
N = 8
fd = aurel.FiniteDifference(
    {'Nx': N, 'Ny': N, 'Nz': N, 'xmin': 0.0, 'ymin': 0.0, 'zmin': 0.0,
     'dx': 20.0, 'dy': 20.0, 'dz': 20.0}, verbose=False)
x, y, z = fd.cartesian_coords
tarray = [1.0, 3.0, 5.0]
Nt = len(tarray)
data = {'t': list(tarray),
        'gammadown3': [sol.gammadown3(t, x, y, z) * (1 + 0.01 * np.sin(x / 30))
                       for t in tarray],
        'Kdown3': [sol.Kdown3(t, x, y, z) for t in tarray],
        'rho': [sol.rho(t) * np.ones((N, N, N)) for t in tarray]}


def l2norm(a):
    """L2 norm of a scalar field: a natural custom estimate called 'norm'."""
    return float(np.sqrt(np.sum(a**2)))


def over_time(d, **kw):
    with contextlib.redirect_stdout(io.StringIO()), \
            contextlib.redirect_stderr(io.StringIO()):
        return aurel.over_time(dict(d), fd, verbose=False, **kw)


def has_column(table, expected):
    expected = np.asarray(expected)
    return any(np.shape(v) == expected.shape
               and np.asarray(v).dtype != object
               and np.array_equal(v, expected, equal_nan=True)
               for v in table.values())


# reference quantities, computed without any possible collision
ref = over_time(data, vars=['Hamiltonian', 'Hamiltonian_norm'])
field = ref['Hamiltonian_norm']                      # (Nt, N, N, N) variable
l2_of_H = np.array([l2norm(a) for a in ref['Hamiltonian']])  # (Nt,) estimate
assert field.shape == (Nt, N, N, N)

errors = []
try:
    # one call
    single = over_time(data, vars=['Hamiltonian', 'Hamiltonian_norm'],
                       estimates=[{'norm': l2norm}])
    # the same requests split over two calls
    step1 = over_time(data, vars=['Hamiltonian'], estimates=[{'norm': l2norm}])
    split = over_time(step1, vars=['Hamiltonian_norm'],
                      estimates=[{'norm': l2norm}])
except ValueError:
    # refusing the ambiguous request loudly is an acceptable repair
    print("finding_4: OK (collision rejected)")
    raise SystemExit(0)

for name, table in [('single call', single), ('split calls', split)]:
    if not has_column(table, field):
        errors.append(f"{name}: the requested variable Hamiltonian_norm "
                      "(3D field) is missing from the table")
    if not has_column(table, l2_of_H):
        errors.append(f"{name}: the requested estimate 'norm' of Hamiltonian "
                      "is missing from the table")
if np.shape(single['Hamiltonian_norm']) != np.shape(split['Hamiltonian_norm']):
    errors.append("column 'Hamiltonian_norm' has shape "
                  f"{np.shape(single['Hamiltonian_norm'])} after one call but "
                  f"{np.shape(split['Hamiltonian_norm'])} after split calls")
assert not errors, "name collision var_estimate vs variable:\n  " + "\n  ".join(errors)
print("finding_4: OK")
