"""C14 finding 3: the built-in variable 'dtconserved' (a tuple of arrays of
different rank) makes over_time raise, for any number of time steps."""
import contextlib
import io
import warnings

import numpy as np

import aurel
from aurel.solutions import EdS as sol

warnings.simplefilter("ignore")
N = 8
fd = aurel.FiniteDifference(
    {'Nx': N, 'Ny': N, 'Nz': N, 'xmin': 0.0, 'ymin': 0.0, 'zmin': 0.0,
     'dx': 20.0, 'dy': 20.0, 'dz': 20.0}, verbose=False)
x, y, z = fd.cartesian_coords
tarray = [1.0, 3.0]
data = {'t': list(tarray),
        'gammadown3': [sol.gammadown3(t, x, y, z) for t in tarray],
        'Kdown3': [sol.Kdown3(t, x, y, z) for t in tarray],
        'rho': [sol.rho(t) * np.ones((N, N, N)) for t in tarray]}
assert 'dtconserved' in aurel.descriptions

# what a fresh calculation gives at each step
fresh = []
for i in range(len(tarray)):
    rel = aurel.AurelCore(fd, verbose=False)
    for k in data:
        rel.data[k] = data[k][i]
    rel.freeze_data()
    fresh.append(rel['dtconserved'])

try:
    with contextlib.redirect_stdout(io.StringIO()), \
            contextlib.redirect_stderr(io.StringIO()):
        res = aurel.over_time(dict(data), fd, vars=['dtconserved'],
                              estimates=['max'], verbose=False)
except Exception as e:  # noqa: BLE001
    raise AssertionError(
        "over_time(vars=['dtconserved']) raised "
        f"{type(e).__name__}: {e}") from e

assert len(res['dtconserved']) == len(tarray)
for i in range(len(tarray)):
    row = res['dtconserved'][i]
    assert len(row) == 3
    for j in range(3):
        assert np.array_equal(np.asarray(row[j], dtype=float), fresh[i][j],
                              equal_nan=True), (i, j)
print("finding_3: OK")
