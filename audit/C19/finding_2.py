"""C19 finding 2 (minor, same root cause as finding 1): with a small (collapsed)
lapse and a non-zero shift the acceleration of the default Eulerian observers
acquires a component along the normal that grows like alpha^-3..-4 (1e-2 of
|d ln alpha| at alpha ~ 1e-5, O(10) at alpha ~ 1e-6; with a time dependent lapse
dtalpha = O(0.05) it is O(10-100) already at alpha ~ 1e-5), and the spatial part loses
5 digits more than necessary.  Cause: udown4 = g_{ab} u^b is evaluated with
cancelling terms beta_i/alpha - gamma_ij beta^j/alpha, so u_i is roundoff/alpha
instead of exactly 0, and this is multiplied by Gamma^l_tt * u^t ~ alpha^-2.
With the cancellation-free u_i = W gamma_ij v^j the same runs give 2e-8 / 3e-12.

Default fluid state, nothing but alpha, beta^i, gamma_ij, K_ij supplied.
alpha = 1e-5 * (smooth O(1) function): smooth, positive, |beta| ~ 0.1.
Expected: a_mu n^mu = 0 and a_i = d_i ln(alpha) up to the discretisation error
(both are algebraic identities of the formulas, they hold to 1e-14 for alpha ~ 1).
"""
import numpy as np
import aurel

N = 12
L = 2 * np.pi
param = dict(Nx=N, Ny=N, Nz=N, xmin=0.0, ymin=0.0, zmin=0.0,
             dx=L / N, dy=L / N, dz=L / N)


def run(lapse_scale):
    fd = aurel.FiniteDifference(param, boundary='periodic', fd_order=4,
                                verbose=False)
    rel = aurel.AurelCore(fd, verbose=False)
    x, y, z = fd.x, fd.y, fd.z
    psi4 = 1.0 + 0.1 * np.cos(z)
    rel.data['alpha'] = lapse_scale * (1.0 + 0.2 * np.sin(x) * np.cos(y))
    rel.data['gxx'] = psi4 * (1.0 + 0.1 * np.sin(y))
    rel.data['gxy'] = 0.1 * np.sin(x + z)
    rel.data['gxz'] = 0.05 * np.cos(y)
    rel.data['gyy'] = psi4 * 1.2
    rel.data['gyz'] = 0.05 * np.sin(x)
    rel.data['gzz'] = psi4 * 0.9
    rel.data['kxx'] = 0.1 * np.sin(z)
    rel.data['kxy'] = 0.05 * np.cos(x)
    rel.data['kyy'] = -0.1 * np.sin(y + z)
    rel.data['kzz'] = 0.07 * np.cos(x - y)
    rel.data['betax'] = 0.10 * np.sin(y)
    rel.data['betay'] = 0.05 * np.cos(z)
    rel.data['betaz'] = 0.10 * np.sin(x + y)
    rel.freeze_data()
    with np.errstate(all='ignore'):
        a = rel['accelerationdown4']
        nup = rel['nup4']
        ud = rel['udown4']
    dlna = fd.d3_scalar(rel['alpha']) / rel['alpha']
    scale = np.max(abs(dlna))
    a_n = np.max(abs(np.einsum('a...,a...->...', a, nup))) / scale
    a_s = np.max(abs(a[1:] - dlna)) / scale
    u_s = np.max(abs(ud[1:])) / np.max(abs(rel['alpha']))
    return a_n, a_s, u_s


for s in [1.0, 1e-3, 1e-4, 1e-5, 1e-6]:
    a_n, a_s, u_s = run(s)
    print(f"alpha ~ {s:g}: |a.n|/|dlnalpha| = {a_n:.2e}   "
          f"|a_i - d_i ln alpha|/|dlnalpha| = {a_s:.2e}   |u_i|/alpha = {u_s:.2e}")

a_n, a_s, u_s = run(1e-5)
assert a_n < 1e-4, (
    f"alpha ~ 1e-5, |beta| ~ 0.1: acceleration component along the normal is "
    f"{a_n:.2e} times max|d ln alpha| (should vanish)")
assert a_s < 1e-8, (
    f"alpha ~ 1e-5: spatial acceleration differs from d_i ln(alpha) by {a_s:.2e} "
    "(relative), although it is an algebraic identity of the discrete formulas")
print("OK")
