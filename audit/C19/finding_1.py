"""C19 finding 1: acceleration of the Eulerian observers becomes roundoff-pattern
noise as soon as a rest-mass density is supplied together with a non-zero shift.

Fluid at rest w.r.t. the slicing (default velx/vely/velz = 0, w_lorentz = 1),
uniform dust rho0 = 1 (constant rho0, p = 0: inside the documented validity range of
dtconserved), smooth lapse / shift / metric / K on a periodic grid.
Expected: a_i = d_i(alpha)/alpha (a pure property of the congruence u = n; it cannot
depend on rho0) -- the library returns exactly that when rho0 is left at its default.
Observed: O(1) point-to-point noise in accelerationdown4[1:], accelerationup4 and
st_covd_udown4[0, 1:].
"""
import numpy as np
import aurel

N = 12
L = 2 * np.pi
param = dict(Nx=N, Ny=N, Nz=N, xmin=0.0, ymin=0.0, zmin=0.0,
             dx=L / N, dy=L / N, dz=L / N)


def build(with_density):
    fd = aurel.FiniteDifference(param, boundary='periodic', fd_order=4,
                                verbose=False)
    rel = aurel.AurelCore(fd, verbose=False)
    x, y, z = fd.x, fd.y, fd.z
    psi4 = 1.0 + 0.1 * np.cos(z)
    rel.data['alpha'] = 1.0 + 0.2 * np.sin(x) * np.cos(y)
    rel.data['dtalpha'] = 0.05 * np.cos(x + z)
    rel.data['gxx'] = psi4 * (1.0 + 0.1 * np.sin(y))
    rel.data['gxy'] = 0.1 * np.sin(x + z)
    rel.data['gxz'] = 0.05 * np.cos(y)
    rel.data['gyy'] = psi4 * 1.2
    rel.data['gyz'] = 0.05 * np.sin(x)
    rel.data['gzz'] = psi4 * 0.9
    rel.data['kxx'] = 0.1 * np.sin(z)
    rel.data['kxy'] = 0.05 * np.cos(x)
    rel.data['kyy'] = -0.1 * np.sin(y + z)
    rel.data['kzz'] = 0.07 * np.cos(x - y)
    rel.data['betax'] = 0.10 * np.sin(y)
    rel.data['betay'] = 0.05 * np.cos(z)
    rel.data['betaz'] = 0.10 * np.sin(x + y)
    if with_density:
        rel.data['rho0'] = np.ones(rel.data_shape)   # uniform dust at rest
    rel.freeze_data()
    return rel, fd


with np.errstate(all='ignore'):
    rel_vac, fd = build(False)
    a_vac = rel_vac['accelerationdown4']
    rel_mat, fd = build(True)
    a_mat = rel_mat['accelerationdown4']
    au_mat = rel_mat['accelerationup4']

dlnalpha = fd.d3_scalar(rel_mat['alpha']) / rel_mat['alpha']
scale = np.max(abs(dlnalpha))

# sanity: the identities that do not involve d_t u_i hold in both set-ups
assert np.max(abs(rel_mat['uup4'] - rel_mat['nup4'])) == 0
assert np.max(abs(rel_mat['theta'] + rel_mat['Ktrace'])) < 1e-12
assert np.max(abs(a_vac[1:] - dlnalpha)) < 1e-12 * scale, "baseline broken"

err = np.max(abs(a_mat[1:] - dlnalpha)) / scale
dif = np.max(abs(a_mat - a_vac)) / scale
u3 = rel_mat['udown3']
print(f"max|u_i| = {abs(u3).max():.2e} (roundoff), "
      f"fraction of exactly-zero u_i = {np.mean(u3 == 0):.2f}")
print(f"max|a_i - d_i ln(alpha)| / max|d ln alpha|  with rho0=1 : {err:.3e}")
print(f"max|a(rho0=1) - a(rho0 default)| / max|d ln alpha|      : {dif:.3e}")
aup_ref = np.einsum('ij...,j...->i...', rel_mat['gammaup3'], dlnalpha)
erru = np.max(abs(au_mat[1:] - aup_ref)) / np.max(abs(aup_ref))

assert err < 1e-10, (
    "Eulerian observers (fluid at rest) with uniform rho0=1 and non-zero shift: "
    f"a_i differs from d_i ln(alpha) by {err:.2e} (relative); "
    "same data with default rho0 agree to 1e-15")
assert dif < 1e-10, f"acceleration of u=n depends on rho0: {dif:.2e}"
assert erru < 1e-10, f"accelerationup4 wrong: {erru:.2e}"
print("OK")
