"""C02 finding 1: reading.transform_vars_ET_to_aurel_groups consumes the
caller's list (removes every grouped name from it, and returns a list that
was built from the emptied argument)."""
from aurel import reading

et_vars = ['betax', 'betay', 'betaz', 'alp', 'gxx']
before = list(et_vars)
result = reading.transform_vars_ET_to_aurel_groups(et_vars)

# the translation itself is what the docstring promises
assert set(result) == {'betaup3', 'alpha', 'gxx'}, result

# ... but the argument list must be left as the caller supplied it
assert et_vars == before, (
    "transform_vars_ET_to_aurel_groups modified its argument in place: "
    f"passed {before}, list is now {et_vars}")

# a second call with the same list object must therefore give the same answer
result2 = reading.transform_vars_ET_to_aurel_groups(et_vars)
assert set(result2) == set(result), (result, result2)
print("OK")
