"""C02 finding 2: reading.read_ET_group_or_var rewrites the caller's
`variables` list in place when a variable name exists in two thorns
(e.g. ADMBASE::gxx and ML_BSSN::gxx in the same file)."""
import os
import tempfile

import h5py
import numpy as np

from aurel import reading

with tempfile.TemporaryDirectory() as tmp:
    fname = os.path.join(tmp, 'gxx.h5')
    with h5py.File(fname, 'w') as f:
        for thorn, val in (('ADMBASE', 1.0), ('ML_BSSN', 2.0)):
            ds = f.create_dataset(f'{thorn}::gxx it=0 tl=0 rl=0',
                                  data=np.full((4, 4, 4), val))
            ds.attrs['cctk_nghostzones'] = np.array([0, 0, 0])
            ds.attrs['iorigin'] = np.array([0, 0, 0])
            ds.attrs['time'] = 0.0

    variables = ['gxx']
    before = list(variables)
    out = reading.read_ET_group_or_var(variables, [fname], 'in file', it=[0])

    # both thorn copies are read (documented disambiguation behaviour)
    assert 'ADMBASE::gxx' in out and 'ML_BSSN::gxx' in out, list(out)

    # the list the caller passed must be unchanged
    assert variables == before, (
        "read_ET_group_or_var modified its `variables` argument in place: "
        f"passed {before}, list is now {variables}")

print("OK")
