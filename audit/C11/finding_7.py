"""C11 finding 7: SIMLOC entries without a trailing slash -- the form the
module/`parameters` docstrings themselves give for several locations,
SIMLOC="/path1:/path2:/path3" -- are concatenated with the simulation name
without a separator, so the simulation is never found."""
import contextlib, io, os, sys, tempfile
import h5py, numpy as np
from aurel import reading

tmp = tempfile.mkdtemp()
d0 = os.path.join(tmp, 'sim', 'output-0000', 'sim')
os.makedirs(d0)
with open(os.path.join(tmp, 'sim', 'output-0000', 'sim.par'), 'w') as f:
    for c in 'xyz':
        f.write(f'CoordBase::{c}min = 0.0\nCoordBase::{c}max = 4.0\n'
                f'CoordBase::d{c} = 1.0\n')
arr = np.random.default_rng(7).standard_normal((3, 4, 5))
with h5py.File(os.path.join(d0, 'rho.xyz.h5'), 'w') as f:
    d = f.create_dataset('HYDROBASE::rho it=0 tl=0 rl=0',
                         data=np.transpose(arr, (2, 1, 0)))
    d.attrs['cctk_nghostzones'] = np.array([0, 0, 0], dtype=np.int32)
    d.attrs['iorigin'] = np.array([0, 0, 0], dtype=np.int32)
    d.attrs['time'] = 0.0

other = tempfile.mkdtemp()
os.environ['SIMLOC'] = other + os.pathsep + tmp   # documented form, no '/'
try:
    param = reading.parameters('sim')
except Exception as e:
    raise AssertionError(
        f'SIMLOC="{os.environ["SIMLOC"]}" (no trailing slash, as in the '
        f'docstring example): {type(e).__name__}: {e}') from e
with contextlib.redirect_stdout(io.StringIO()):
    data = reading.read_data(param, it=[0], vars=['rho0'], skip_last=False,
                             split_per_it=False, verbose=False)
assert np.array_equal(data['rho0'][0], arr)
print('ok')
