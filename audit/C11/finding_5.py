"""C11 finding 5: when a variable is not written in every restart, its list
comes back SHORTER than 'it' (no None placeholder as documented), so its
entries are paired with the wrong iterations/times.
restart 0: rho, alp (it 0,2) ; restart 1: rho only (it 4,6) ;
restart 2: rho, alp (it 8,10).  read it=[2,4,8]."""
import contextlib, io, os, sys, tempfile
import h5py, numpy as np
from aurel import reading


def write(f, key, interior_xyz, iorigin, ghost, time):
    pad = np.pad(interior_xyz, [(g, g) for g in ghost], constant_values=-777.)
    d = f.create_dataset(key, data=np.transpose(pad, (2, 1, 0)))
    d.attrs['cctk_nghostzones'] = np.array(ghost, dtype=np.int32)
    d.attrs['iorigin'] = np.array(iorigin, dtype=np.int32)
    d.attrs['time'] = float(time)


tmp = tempfile.mkdtemp()
truth = {}
thorn = {'rho': 'HYDROBASE', 'alp': 'ADMBASE'}
layout = ((0, [0, 2], ['rho', 'alp']), (1, [4, 6], ['rho']),
          (2, [8, 10], ['rho', 'alp']))
for restart, its, variables in layout:
    d0 = os.path.join(tmp, 'sim', f'output-{restart:04d}', 'sim')
    os.makedirs(d0)
    for iv, v in enumerate(variables):
        with h5py.File(os.path.join(d0, f'{v}.xyz.h5'), 'w') as f:
            for it in its:
                arr = np.random.default_rng(1000*iv + it).standard_normal(
                    (3, 4, 5))
                truth[(v, it)] = arr
                write(f, f'{thorn[v]}::{v} it={it} tl=0 rl=0', arr,
                      (0, 0, 0), (1, 1, 1), 0.5*it)
param = {'simulation': 'ET', 'simpath': tmp + '/', 'simname': 'sim'}

want = [2, 4, 8]
try:
    with contextlib.redirect_stdout(io.StringIO()):
        data = reading.read_data(param, it=want, vars=['rho0', 'alpha'],
                                 skip_last=False, split_per_it=False,
                                 verbose=False)
except Exception as e:
    raise AssertionError(f'raised {type(e).__name__}: {e}') from e

assert [int(i) for i in data['it']] == want
problems = []
for key, et in (('rho0', 'rho'), ('alpha', 'alp')):
    if len(data[key]) != len(want):
        problems.append(f"len(data['{key}']) = {len(data[key])} but "
                        f"len(data['it']) = {len(want)}")
    for i, entry in enumerate(data[key]):
        it = want[i]
        if entry is None:
            if (et, it) in truth:
                problems.append(f'{key} it={it} stored but None returned')
        elif (et, it) not in truth or not np.array_equal(entry, truth[(et, it)]):
            which = [k for k, a in truth.items() if np.array_equal(a, entry)]
            problems.append(f"data['{key}'][{i}] (it={it}) holds the stored "
                            f"data of {which}")
assert not problems, ' | '.join(problems)
print('ok')
