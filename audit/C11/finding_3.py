"""C11 finding 3: in the one-file-per-process layout the reader assumes that
file_<n> holds exactly one component and that it is 'c=<n>'.  With
IO::out_mode="np" / out_proc_every=2 (or several components per process) a
file holds several components: only the one whose number equals the file
number is read, the others are silently dropped."""
import contextlib, io, os, sys, tempfile
import h5py, numpy as np
from aurel import reading


def write(f, key, interior_xyz, iorigin, ghost, time):
    pad = np.pad(interior_xyz, [(g, g) for g in ghost], constant_values=-777.)
    d = f.create_dataset(key, data=np.transpose(pad, (2, 1, 0)))
    d.attrs['cctk_nghostzones'] = np.array(ghost, dtype=np.int32)
    d.attrs['iorigin'] = np.array(iorigin, dtype=np.int32)
    d.attrs['time'] = float(time)


tmp = tempfile.mkdtemp()
d0 = os.path.join(tmp, 'sim', 'output-0000', 'sim')
os.makedirs(d0)
full = np.random.default_rng(3).standard_normal((3, 3, 8))
# 4 components (cuts along z), every second process writes: file_0 holds
# c=0,1 and file_2 holds c=2,3
for c in range(4):
    with h5py.File(os.path.join(d0, f'rho.xyz.file_{2*(c//2)}.h5'), 'a') as f:
        write(f, f'HYDROBASE::rho it=0 tl=0 rl=0 c={c}',
              full[:, :, 2*c:2*c+2], (0, 0, 2*c), (1, 1, 1), 0.0)
param = {'simulation': 'ET', 'simpath': tmp + '/', 'simname': 'sim'}
with contextlib.redirect_stdout(io.StringIO()):
    data = reading.read_data(param, it=[0], vars=['rho0'], skip_last=False,
                             split_per_it=False, verbose=False)
out = data['rho0'][0]
assert out.shape == full.shape and np.array_equal(out, full), (
    f'4 components stored in 2 process files: returned shape {out.shape} '
    f'instead of {full.shape}; components c=1 and c=3 were dropped silently '
    f'(returned == stored[..., [0,1,4,5]]: '
    f'{np.array_equal(out, full[:, :, [0, 1, 4, 5]])})')
print('ok')
