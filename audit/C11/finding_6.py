"""C11 finding 6: output files that contain several time levels
(IOHDF5::output_all_timelevels = yes -> keys '... it=4 tl=0', '... it=4 tl=1')
cannot be read: the 3D reader does not select tl=0 (the checkpoint reader
does) and raises '3 keys found'."""
import contextlib, io, os, sys, tempfile
import h5py, numpy as np
from aurel import reading


def write(f, key, interior_xyz, iorigin, ghost, time):
    pad = np.pad(interior_xyz, [(g, g) for g in ghost], constant_values=-777.)
    d = f.create_dataset(key, data=np.transpose(pad, (2, 1, 0)))
    d.attrs['cctk_nghostzones'] = np.array(ghost, dtype=np.int32)
    d.attrs['iorigin'] = np.array(iorigin, dtype=np.int32)
    d.attrs['time'] = float(time)


tmp = tempfile.mkdtemp()
d0 = os.path.join(tmp, 'sim', 'output-0000', 'sim')
os.makedirs(d0)
cur = {it: np.random.default_rng(it).standard_normal((3, 4, 5))
       for it in (0, 2)}
with h5py.File(os.path.join(d0, 'rho.xyz.h5'), 'w') as f:
    for it in (0, 2):
        for tl in (0, 1, 2):
            write(f, f'HYDROBASE::rho it={it} tl={tl} rl=0', cur[it] + 10*tl,
                  (0, 0, 0), (1, 1, 1), 0.5*(it - tl))
param = {'simulation': 'ET', 'simpath': tmp + '/', 'simname': 'sim'}
try:
    with contextlib.redirect_stdout(io.StringIO()):
        data = reading.read_data(param, it=[0, 2], vars=['rho0'],
                                 skip_last=False, split_per_it=False,
                                 verbose=False)
except Exception as e:
    raise AssertionError(
        'file with time levels tl=0,1,2 per iteration could not be read: '
        f'{type(e).__name__}: {e}') from e
for i, it in enumerate((0, 2)):
    assert np.array_equal(data['rho0'][i], cur[it]), \
        f'it={it}: current time level (tl=0) not returned'
    assert data['t'][i] == 0.5*it, data['t']
print('ok')
