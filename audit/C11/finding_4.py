"""C11 finding 4: the restart of an iteration is chosen from the interval
[itmin, itmax] of each restart only.  An iteration that lies inside the
interval of a later restart but was only written by an earlier one (output
cadence changed from every 2 to every 4 iterations at the restart) cannot be
read although it is present in the simulation directory."""
import contextlib, io, os, sys, tempfile
import h5py, numpy as np
from aurel import reading


def write(f, key, interior_xyz, iorigin, ghost, time):
    pad = np.pad(interior_xyz, [(g, g) for g in ghost], constant_values=-777.)
    d = f.create_dataset(key, data=np.transpose(pad, (2, 1, 0)))
    d.attrs['cctk_nghostzones'] = np.array(ghost, dtype=np.int32)
    d.attrs['iorigin'] = np.array(iorigin, dtype=np.int32)
    d.attrs['time'] = float(time)


tmp = tempfile.mkdtemp()
truth = {}
for restart, its in ((0, [0, 2, 4, 6, 8]), (1, [4, 8, 12])):
    d0 = os.path.join(tmp, 'sim', f'output-{restart:04d}', 'sim')
    os.makedirs(d0)
    with h5py.File(os.path.join(d0, 'rho.xyz.h5'), 'w') as f:
        for it in its:
            arr = np.random.default_rng(100*restart + it).standard_normal(
                (3, 4, 5))
            truth[it] = arr  # the later restart wins
            write(f, f'HYDROBASE::rho it={it} tl=0 rl=0', arr, (0, 0, 0),
                  (1, 1, 1), 0.5*it)
param = {'simulation': 'ET', 'simpath': tmp + '/', 'simname': 'sim'}

try:
    with contextlib.redirect_stdout(io.StringIO()):
        data = reading.read_data(param, it=[2, 6, 8], vars=['rho0'],
                                 skip_last=False, split_per_it=False,
                                 verbose=False)
except Exception as e:
    raise AssertionError(
        'iteration 6 is stored in output-0000 but reading it=[2, 6, 8] '
        f'raised {type(e).__name__}: {e}') from e
assert [int(i) for i in data['it']] == [2, 6, 8], data['it']
assert list(data['t']) == [1.0, 3.0, 4.0], data['t']
for i, it in enumerate([2, 6, 8]):
    assert np.array_equal(data['rho0'][i], truth[it]), f'wrong data it={it}'
print('ok')
