"""C11 finding 1: a single-variable file that holds the same variable name
from two thorns (e.g. H.xyz.h5 with ML_BSSN::H and ML_ADMCONSTRAINTS::H, which
is what Carpet writes with one_file_per_group=no) cannot be read:
read_ET_group_or_var tries to rewrite `variables` in place, but it is the
tuple key of get_content -> TypeError."""
import contextlib, io, os, sys, tempfile
import h5py, numpy as np
from aurel import reading


def write(f, key, interior_xyz, iorigin, ghost, time):
    pad = np.pad(interior_xyz, [(g, g) for g in ghost], constant_values=-777.)
    d = f.create_dataset(key, data=np.transpose(pad, (2, 1, 0)))
    d.attrs['cctk_nghostzones'] = np.array(ghost, dtype=np.int32)
    d.attrs['iorigin'] = np.array(iorigin, dtype=np.int32)
    d.attrs['time'] = float(time)


tmp = tempfile.mkdtemp()
d0 = os.path.join(tmp, 'sim', 'output-0000', 'sim')
os.makedirs(d0)
A = np.random.default_rng(1).standard_normal((3, 4, 5))
B = A + 1.0
with h5py.File(os.path.join(d0, 'H.xyz.h5'), 'w') as f:
    write(f, 'ML_BSSN::H it=0 tl=0 rl=0', A, (0, 0, 0), (1, 1, 1), 0.0)
    write(f, 'ML_ADMCONSTRAINTS::H it=0 tl=0 rl=0', B, (0, 0, 0), (1, 1, 1), 0.0)
param = {'simulation': 'ET', 'simpath': tmp + '/', 'simname': 'sim'}

try:
    with contextlib.redirect_stdout(io.StringIO()):
        data = reading.read_data(param, it=[0], vars=['Hamiltonian'],
                                 skip_last=False, split_per_it=False,
                                 verbose=False)
except Exception as e:  # noqa
    raise AssertionError(
        'reading a variable written by two thorns into one file raised '
        f'{type(e).__name__}: {e}') from e

arrays = [v[0] for k, v in data.items() if k not in ('it', 't')]
assert any(np.array_equal(a, A) for a in arrays), 'ML_BSSN::H not returned'
assert any(np.array_equal(a, B) for a in arrays), \
    'ML_ADMCONSTRAINTS::H not returned'
print('ok')
