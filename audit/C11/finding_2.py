"""C11 finding 2: join_chunks uses the recorded origins only to ORDER the
pieces, never to place them: a hole between pieces is silently closed up.
(a) one of the per-process files is missing (cuts along one axis),
(b) a refinement level made of two disjoint boxes.
Both return an array of the wrong shape with misplaced data instead of
raising."""
import contextlib, io, os, sys, tempfile
import h5py, numpy as np
from aurel import reading


def write(f, key, interior_xyz, iorigin, ghost, time):
    pad = np.pad(interior_xyz, [(g, g) for g in ghost], constant_values=-777.)
    d = f.create_dataset(key, data=np.transpose(pad, (2, 1, 0)))
    d.attrs['cctk_nghostzones'] = np.array(ghost, dtype=np.int32)
    d.attrs['iorigin'] = np.array(iorigin, dtype=np.int32)
    d.attrs['time'] = float(time)


def read(param, **kw):
    with contextlib.redirect_stdout(io.StringIO()):
        return reading.read_data(param, skip_last=False, split_per_it=False,
                                 verbose=False, **kw)


problems = []

# (a) 4 processes, cuts along z only, file of process 2 is missing
tmp = tempfile.mkdtemp()
d0 = os.path.join(tmp, 'sim', 'output-0000', 'sim')
os.makedirs(d0)
full = np.random.default_rng(2).standard_normal((3, 3, 8))
for c in range(4):
    if c == 2:
        continue  # lost file
    with h5py.File(os.path.join(d0, f'rho.xyz.file_{c}.h5'), 'w') as f:
        write(f, f'HYDROBASE::rho it=0 tl=0 rl=0 c={c}',
              full[:, :, 2*c:2*c+2], (0, 0, 2*c), (1, 1, 1), 0.0)
param = {'simulation': 'ET', 'simpath': tmp + '/', 'simname': 'sim'}
try:
    out = read(param, it=[0], vars=['rho0'])['rho0'][0]
    problems.append(
        f'(a) piece at z-origin 4 is missing, yet an array of shape '
        f'{out.shape} was returned (grid is (3, 3, 8)); the piece recorded '
        f'at origin z=6 sits at z=4: {np.array_equal(out[:, :, 4:], full[:, :, 6:])}')
except Exception:
    pass  # raising is the correct behaviour

# (b) refinement level 1 = two separate boxes (origins x=2 and x=20)
tmp = tempfile.mkdtemp()
d0 = os.path.join(tmp, 'sim', 'output-0000', 'sim')
os.makedirs(d0)
with h5py.File(os.path.join(d0, 'rho.xyz.h5'), 'w') as f:
    write(f, 'HYDROBASE::rho it=0 tl=0 rl=0', np.zeros((12, 4, 4)),
          (0, 0, 0), (1, 1, 1), 0.0)
    write(f, 'HYDROBASE::rho it=0 tl=0 rl=1 c=0', np.ones((2, 2, 2)),
          (2, 2, 2), (1, 1, 1), 0.0)
    write(f, 'HYDROBASE::rho it=0 tl=0 rl=1 c=1', 2*np.ones((2, 2, 2)),
          (20, 2, 2), (1, 1, 1), 0.0)
param = {'simulation': 'ET', 'simpath': tmp + '/', 'simname': 'sim'}
try:
    out = read(param, it=[0], vars=['rho0'], rl=1)['rho0'][0]
    problems.append(
        f'(b) two boxes 16 points apart were glued into one array of shape '
        f'{out.shape}')
except Exception:
    pass

# (c) the same, directly on join_chunks
try:
    out = reading.join_chunks({(0, 0, 0): np.zeros((2, 3, 3)),
                               (0, 0, 6): np.ones((2, 3, 3))})
    problems.append(f'(c) join_chunks closed a 4-point hole: {out.shape}')
except Exception:
    pass

assert not problems, ' | '.join(problems)
print('ok')
