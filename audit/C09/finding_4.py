"""C09 finding 4: where rho0 = 0 but press != 0 (allowed: rho0 >= 0, any
press) the conserved momentum density conserved_Sdown3 = D h u_i is returned
as 0, although its closed form sqrt(gamma) rho0 h W^2 v_i =
sqrt(gamma) (rho + p) W^2 v_i = sqrt(gamma) * fluxdown3_n is not zero.
(D = 0 is multiplied by an enthalpy that safe_division silently made finite.)"""
import numpy as np
import aurel

N = 6
param = dict(Nx=N, Ny=N, Nz=N, xmin=-1., ymin=-1., zmin=-1.,
             dx=0.4, dy=0.4, dz=0.4)
fd = aurel.FiniteDifference(param, verbose=False)
x, y, z = fd.x, fd.y, fd.z
rel = aurel.AurelCore(fd, verbose=False)
g = np.zeros((3, 3) + rel.data_shape)
g[0, 0] = 1.5 + 0.1*np.sin(x); g[1, 1] = 1.2; g[2, 2] = 2.0
g[0, 1] = g[1, 0] = 0.2*np.cos(y)
v = np.array([0.3*np.sin(x), 0.2*np.cos(y), -0.25 + 0*z])
W = 1/np.sqrt(1 - np.einsum('i...,j...,ij...->...', v, v, g))
rho0 = 1 + 0.5*np.sin(x + y + z)**2
rho0[:3] = 0.0                       # half of the box has no rest mass
press = 0.3 + 0.1*np.sin(z)
rel.data['gammadown3'] = g
rel.data['alpha'] = 1.3 + 0.2*np.sin(x*y)
rel.data['betaup3'] = np.array([0.2*np.sin(y), -0.3*np.cos(z), 0.1*x])
rel.data['velx'], rel.data['vely'], rel.data['velz'] = v
rel.data['w_lorentz'] = W
rel.data['rho0'] = rho0
rel.data['eps'] = 0.2 + 0*x
rel.data['press'] = press
rel.freeze_data()

vdown = np.einsum('ij...,j...->i...', g, v)
sg = np.sqrt(rel['gammadet'])
rho = rho0*1.2
closed = sg*(rho + press)*W**2*vdown          # sqrt(gamma) rho0 h W^2 v_i
# the Eulerian momentum density is right everywhere
assert np.allclose(sg*rel['fluxdown3_n'], closed, rtol=1e-12)
S = rel['conserved_Sdown3']
# and conserved_S is right where rho0 > 0
assert np.allclose(S[:, 3:], closed[:, 3:], rtol=1e-12)
bad = np.abs(S[:, :3] - closed[:, :3]).max()
assert np.allclose(S[:, :3], closed[:, :3], rtol=1e-12), (
    "conserved_Sdown3 != sqrt(gamma) (rho+p) W^2 v_i where rho0 = 0: "
    "max |S_i| returned = %g, expected up to %g (max abs error %g)"
    % (np.abs(S[:, :3]).max(), np.abs(closed[:, :3]).max(), bad))
print("OK")
