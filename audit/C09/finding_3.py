"""C09 finding 3: st_Ricci_down4 (hence st_RicciS, Einsteindown4) depends on
whether Tdown4 happens to be in the cache: first evaluation on a fresh object
contracts the Riemann tensor, any evaluation after Tdown4 was cached (e.g.
after asking for rho_n, or after st_Ricci_down4 itself was evicted by the
cache clean-up) returns kappa (T - T g/2) + Lambda g instead. For data that do
not satisfy the constraints exactly the two differ at O(1) in the time
components."""
import numpy as np
import aurel

N = 10
param = dict(Nx=N, Ny=N, Nz=N, xmin=-1., ymin=-1., zmin=-1.,
             dx=0.25, dy=0.25, dz=0.25)
fd = aurel.FiniteDifference(param, verbose=False)
x, y, z = fd.x, fd.y, fd.z


def build():
    rel = aurel.AurelCore(fd, verbose=False)
    g = np.zeros((3, 3) + rel.data_shape)
    g[0, 0] = 1.5 + 0.1*np.sin(x); g[1, 1] = 1.2 + 0.1*np.cos(z)
    g[2, 2] = 2.0 + 0.1*np.sin(y); g[0, 1] = g[1, 0] = 0.2*np.cos(y)
    v = np.array([0.3*np.sin(x), 0.2*np.cos(y), -0.25 + 0*z])
    W = 1/np.sqrt(1 - np.einsum('i...,j...,ij...->...', v, v, g))
    K = np.zeros_like(g)
    K[0, 0] = 0.05*np.cos(x); K[1, 1] = 0.02; K[2, 2] = -0.03*np.sin(z)
    rel.data['gammadown3'] = g
    rel.data['Kdown3'] = K
    rel.data['alpha'] = 1.3 + 0.2*np.sin(x*y)
    rel.data['betaup3'] = np.array([0.2*np.sin(y), -0.3*np.cos(z), 0.1*x])
    rel.data['velx'], rel.data['vely'], rel.data['velz'] = v
    rel.data['w_lorentz'] = W
    rel.data['rho0'] = 1 + 0.5*np.sin(x + y + z)**2
    rel.data['eps'] = 0.2 + 0*x
    rel.data['press'] = 0.3 + 0.1*np.sin(z)
    rel.freeze_data()
    return rel


inner = (slice(None), slice(None)) + (slice(4, 6),)*3


def rel_diff(a, b):
    return np.abs(a[inner] - b[inner]).max() / np.abs(b[inner]).max()


# (a) order dependence between two identical objects
A = build()
RA = A['st_Ricci_down4'].copy()
B = build()
B['rho_n']                      # any quantity that caches Tdown4
RB = B['st_Ricci_down4'].copy()
d_order = rel_diff(RB, RA)

# (b) same object, value changes after the cache clean-up evicted it
C = build()
R1 = C['st_Ricci_down4'].copy()
n = 0
for key in ['gammadet', 'psi_bssnok', 'phi_bssnok', 'Ktrace', 'Adown3', 'A2',
            'betamag', 'dttau', 'gdet', 'hdet', 'conserved_D', 'conserved_E',
            'enthalpy', 'rho', 'press_n', 'Stresstrace_n', 'fluxup3_n',
            'fluxdown3_n', 'Ttrace', 'Tup4', 'hup4', 'hmixed4', 'veldown3',
            'conserved_Sdown3', 'conserved_Sup3', 'Aup3', 'Kup3', 'ndown4']:
    C[key]
    if 'st_Ricci_down4' not in C.data:
        break
evicted = 'st_Ricci_down4' not in C.data
R2 = C['st_Ricci_down4']
d_evict = rel_diff(R2, R1)

assert d_order < 1e-6 and d_evict < 1e-6, (
    "st_Ricci_down4 depends on cache history: relative change %.3g when rho_n "
    "is asked first; relative change %.3g on re-evaluation in the same object "
    "(evicted by clean-up: %s)" % (d_order, d_evict, evicted))
print("OK")
