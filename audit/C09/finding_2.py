"""C09 finding 2: with vacuum=True (documented as 'no matter') and a non-zero
cosmological constant, the 4-Ricci tensor loses the Lambda term: for exact
de Sitter data st_Ricci_down4 != Lambda g, and st_Ricci_down3 (Ricci 'from T')
returns Lambda*gamma_ij or 0 depending on whether st_Ricci_down4 is cached."""
import numpy as np
import aurel

N = 8
param = dict(Nx=N, Ny=N, Nz=N, xmin=-1., ymin=-1., zmin=-1.,
             dx=0.25, dy=0.25, dz=0.25)
fd = aurel.FiniteDifference(param, verbose=False)
H, a = 0.5, 1.3
Lam = 3*H**2


def desitter(vacuum):
    rel = aurel.AurelCore(fd, verbose=False, Lambda=Lam, vacuum=vacuum)
    g = np.zeros((3, 3) + rel.data_shape)
    for i in range(3):
        g[i, i] = a**2
    rel.data['gammadown3'] = g
    rel.data['Kdown3'] = -H*g          # flat-slicing de Sitter, alpha=1, beta=0
    rel.freeze_data()
    return rel


# reference behaviour without the shortcut (passes on the current code)
ref = desitter(False)
assert np.allclose(ref['st_Ricci_down4'], Lam*ref['gdown4'], atol=1e-12)

R3_first = desitter(True)['st_Ricci_down3'].copy()  # asked first
rel = desitter(True)
R4 = rel['st_Ricci_down4']                        # asked first on a new object
R3_after = rel['st_Ricci_down3']                  # st_Ricci_down4 cached
err = []
if not np.allclose(R3_first, R3_after, atol=1e-12):
    err.append("st_Ricci_down3 is history dependent: R_xx = %g before and %g "
               "after st_Ricci_down4 was computed (Lambda*gamma_xx = %g)"
               % (R3_first[0, 0, 4, 4, 4], R3_after[0, 0, 4, 4, 4], Lam*a**2))
if not np.allclose(R4, Lam*rel['gdown4'], atol=1e-12):
    err.append("st_Ricci_down4 diag = %s, expected Lambda*g diag = %s"
               % ([round(float(R4[i, i, 4, 4, 4]), 6) for i in range(4)],
                  [round(float(Lam*rel['gdown4'][i, i, 4, 4, 4]), 6)
                   for i in range(4)]))
assert not err, "vacuum=True drops Lambda: " + "; ".join(err)
print("OK")
