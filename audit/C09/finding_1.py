"""C09 finding 1: Eulerian velocity supplied as 'velup3' (the key the library's
own ET reader / over_time produce) is ignored by velx/vely/velz, velup4,
veldown4 and veldown3, which silently come out as zero, while uup3/Tdown4 do
use it. v_i = gamma_ij v^j and S_i = rho h W^2 v_i then fail."""
import numpy as np
import aurel

N = 6
param = dict(Nx=N, Ny=N, Nz=N, xmin=-1., ymin=-1., zmin=-1.,
             dx=0.4, dy=0.4, dz=0.4)
fd = aurel.FiniteDifference(param, verbose=False)
x, y, z = fd.x, fd.y, fd.z


def build(vel_key):
    rel = aurel.AurelCore(fd, verbose=False)
    g = np.zeros((3, 3) + rel.data_shape)
    g[0, 0] = 1.5 + 0.1*np.sin(x); g[1, 1] = 1.2; g[2, 2] = 2.0
    g[0, 1] = g[1, 0] = 0.2*np.cos(y)
    v = np.array([0.3*np.sin(x), 0.2*np.cos(y), -0.25 + 0*z])
    W = 1/np.sqrt(1 - np.einsum('i...,j...,ij...->...', v, v, g))
    rel.data['gammadown3'] = g
    rel.data['alpha'] = 1.3 + 0.2*np.sin(x*y)
    rel.data['betaup3'] = np.array([0.2*np.sin(y), -0.3*np.cos(z), 0.1*x])
    if vel_key == 'velup3':
        rel.data['velup3'] = v
    else:
        rel.data['velx'], rel.data['vely'], rel.data['velz'] = v
    rel.data['w_lorentz'] = W
    rel.data['rho0'] = 1 + 0.5*np.sin(x + y + z)**2
    rel.data['eps'] = 0.2 + 0*x
    rel.data['press'] = 0.3 + 0.1*np.sin(z)
    rel.freeze_data()
    return rel, g, v, W


rel, g, v, W = build('velup3')
vdown = np.einsum('ij...,j...->i...', g, v)
rhoh = rel['rho0']*rel['enthalpy']

# the stress-energy side does see the velocity ...
assert np.allclose(rel['fluxdown3_n'], rhoh*W**2*vdown, rtol=1e-12), \
    "S_i != rho h W^2 v_i (with the true v_i)"
# ... but the velocity family does not
err = []
if not np.allclose(rel['veldown3'], vdown, rtol=1e-12, atol=1e-14):
    err.append("veldown3 != gamma_ij v^j (max |veldown3| = %g, expected %g)"
               % (np.abs(rel['veldown3']).max(), np.abs(vdown).max()))
if not np.allclose(rel['velup4'][1:], v):
    err.append("velup4[1:] != velup3")
if not np.allclose(rel['velx'], v[0]):
    err.append("velx != velup3[0]")
if not np.allclose(rel['fluxdown3_n'], rhoh*W**2*rel['veldown3'], rtol=1e-12):
    err.append("S_i != rho h W^2 * veldown3 as returned by the library")
# same physical input given by components must give the same answers
rel2, *_ = build('xyz')
if not np.allclose(rel['veldown4'], rel2['veldown4']):
    err.append("veldown4 differs between velup3 input and velx/vely/velz input")
assert not err, "velocity given as 'velup3' is ignored: " + "; ".join(err)
print("OK")
