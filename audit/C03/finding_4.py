"""C03 finding 4: AurelCore.load_data(sim_data, iteration) replaces the frozen
inputs but keeps every value derived from the previous inputs in the cache,
and its freeze_data() call then marks those stale derived values as frozen
inputs (var_importance = 0), so they can never be cleaned up either.  Loading
the next iteration into the same AurelCore therefore silently returns the
previous iteration's results."""
import numpy as np
import aurel

N = 6
param = {'Nx': N, 'Ny': N, 'Nz': N, 'xmin': -1., 'ymin': -1., 'zmin': -1.,
         'dx': 2 / N, 'dy': 2 / N, 'dz': 2 / N}
fd = aurel.FiniteDifference(param, boundary='periodic', fd_order=4,
                            verbose=False)
shape = (N, N, N)
one = np.ones(shape)
sim_data = {  # two time steps of a conformally flat slice, a^2 = 1 then 4
    'gxx': [1 * one, 4 * one], 'gyy': [1 * one, 4 * one],
    'gzz': [1 * one, 4 * one],
    'kxx': [-1 * one, -8 * one], 'kyy': [-1 * one, -8 * one],
    'kzz': [-1 * one, -8 * one],
}
rel = aurel.AurelCore(fd, verbose=False)

rel.load_data(sim_data, 0)
assert np.allclose(rel['gammadet'], 1.0) and np.allclose(rel['Ktrace'], -3.0)

rel.load_data(sim_data, 1)
assert np.allclose(rel.data['gxx'], 4.0)  # the new inputs are in place
derived_frozen = [k for k in ('gammadet', 'Ktrace', 'gammadown3', 'Kdown3')
                  if k in rel.data and rel.var_importance.get(k, 1.0) == 0]
gammadet, Ktrace = rel['gammadet'], rel['Ktrace']
assert np.allclose(gammadet, 64.0) and np.allclose(Ktrace, -6.0), (
    "after load_data(sim_data, 1) the results still belong to iteration 0: "
    f"gammadet = {gammadet.flat[0]} (expected 64), "
    f"Ktrace = {Ktrace.flat[0]} (expected -6); derived entries that "
    f"load_data froze as if they were inputs: {derived_frozen}")
print("ok")
