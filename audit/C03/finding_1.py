"""C03 finding 1: the memory-limit loop of AurelCore.cleanup_cache switches from
get_size() to sys.getsizeof() after its first removal, so entries that are
numpy views (the frozen inputs handed over by over_time / load_data are views
of the (nt, Nx, Ny, Nz) columns) or containers (tuples, lists, dicts) become
invisible.  The loop then stops although the cache is still above
memory_threshold_inGB and removable (old, unfrozen) entries remain."""
import numpy as np
import aurel
from aurel.utils.memory import get_size

N = 16
param = {'Nx': N, 'Ny': N, 'Nz': N, 'xmin': -1., 'ymin': -1., 'zmin': -1.,
         'dx': 2 / N, 'dy': 2 / N, 'dz': 2 / N}
fd = aurel.FiniteDifference(param, boundary='periodic', fd_order=4,
                            verbose=False)
scalar = N**3 * 8
names = ['gxx', 'gxy', 'gxz', 'gyy', 'gyz', 'gzz',
         'kxx', 'kxy', 'kxz', 'kyy', 'kyz', 'kzz',
         'alpha', 'betax', 'betay', 'betaz',
         'rho0', 'press', 'eps', 'w_lorentz']
# one time step of a time series: every input is a view of a bigger array,
# exactly what over_time()/load_data() put into AurelCore.data
block = np.zeros((len(names), N, N, N))
for i, n in enumerate(names):
    if n in ('gxx', 'gyy', 'gzz', 'alpha', 'w_lorentz'):
        block[i] = 1.0

threshold = 60 * scalar  # bytes: 20 frozen scalars + room for 40 more
rel = aurel.AurelCore(fd, verbose=False,
                      clear_cache_every_nbr_calc=10**6,
                      memory_threshold_inGB=threshold / 1024**3)
for i, n in enumerate(names):
    rel.data[n] = block[i]
rel.freeze_data()

problems = []
for key in ['gammadown3', 'gammaup3', 'Kdown3', 'Kup3', 'gdown4', 'gup4',
            'Tdown4', 'Tup4', 's_Gamma_udd3', 'hdown4', 'hup4']:
    rel[key]            # every new calculation ends with cleanup_cache()
    rel.cleanup_cache()  # and once more explicitly
    size = get_size(rel.data)
    removable = [k for k, t in rel.last_accessed.items()
                 if rel.calculation_count - t > 1
                 and rel.var_importance.get(k, 1.0) > 0]
    if size >= threshold and removable:
        problems.append((key, round(size / scalar, 1), len(removable)))

assert not problems, (
    "cleanup_cache returned with the cache still at/above "
    f"memory_threshold_inGB (= {threshold / scalar:.0f} scalars) although "
    "old unfrozen entries were left to remove; "
    "(request, cache size in scalars, nbr removable entries): "
    f"{problems}")
print("ok")
