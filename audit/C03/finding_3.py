"""C03 finding 3: AurelCore.__getitem__ stores the value of ANY zero-argument
method in AurelCore.data before it looks up descriptions[key].  For the public
zero-argument helpers that are not in descriptions (levicivita_down3/4,
levicivita_symbol_down3/4, kronecker_delta3/4, tetrad_base, null_vector_base)
the request raises KeyError *after* the value was cached: the entry stays in
data without an age (last_accessed) entry, so clean-up can never remove it
(levicivita_down4 is 256 scalar grids), and the very same request succeeds the
second time."""
import numpy as np
import aurel

N = 6
param = {'Nx': N, 'Ny': N, 'Nz': N, 'xmin': -1., 'ymin': -1., 'zmin': -1.,
         'dx': 2 / N, 'dy': 2 / N, 'dz': 2 / N}
fd = aurel.FiniteDifference(param, boundary='periodic', fd_order=4,
                            verbose=False)
rel = aurel.AurelCore(fd, verbose=False, clear_cache_every_nbr_calc=2,
                      memory_threshold_inGB=1e-9)
rel.data['gxx'] = 2 * np.ones(rel.data_shape)
rel.freeze_data()
frozen = set(rel.data)

outcomes = []
for attempt in range(2):
    try:
        rel['levicivita_down4']
        outcomes.append('returned')
    except KeyError as e:
        outcomes.append(f'KeyError({e})')
    untracked = set(rel.data) - frozen - set(rel.last_accessed)
    assert not untracked, (
        f"attempt {attempt + 1} ({outcomes[-1]}): entries cached without an "
        f"age-table entry, clean-up can never remove them: {untracked}")
assert outcomes[0] == outcomes[1], (
    f"the same request behaved differently when repeated: {outcomes}")

# whatever was cached must be removable again by the clean-up
for key in ['gammadown3', 'gammaup3', 'gammadet', 'Kdown3', 'Ktrace']:
    rel[key]
assert 'levicivita_down4' not in rel.data or \
    'levicivita_down4' in rel.last_accessed
print("ok")
