"""C03 finding 5: the time-series driver freezes every column of `data` and
every custom variable ("Freeze this in") into the AurelCore of each time step,
so a custom variable may read them with rel['name'].  But over_time first
validates each custom function on an EMPTY AurelCore (Minkowski-vacuum
defaults, none of the frozen inputs), so any custom variable that reads a
user-supplied column that AurelCore cannot compute itself, or an earlier
custom variable, fails validation and is dropped from the result (only a
printed message, no exception)."""
import contextlib
import io
import numpy as np
import aurel

N = 6
param = {'Nx': N, 'Ny': N, 'Nz': N, 'xmin': -1., 'ymin': -1., 'zmin': -1.,
         'dx': 2 / N, 'dy': 2 / N, 'dz': 2 / N}
fd = aurel.FiniteDifference(param, boundary='periodic', fd_order=4,
                            verbose=False)
nt = 2
one = np.ones((nt, N, N, N))
data = {'it': np.arange(nt), 't': 0.1 * np.arange(nt),
        'gxx': 4 * one, 'gyy': 4 * one, 'gzz': 4 * one,
        'phi': 3 * one}            # a field of the simulation, not an aurel name

vars_requested = [
    {'phi_density': lambda rel: rel['phi'] * np.sqrt(rel['gammadet'])},
    {'twice_gammadet': lambda rel: 2 * rel['gammadet']},
    {'chained': lambda rel: rel['twice_gammadet'] + 1},
]
log = io.StringIO()
with contextlib.redirect_stdout(log), contextlib.redirect_stderr(log):
    out = aurel.over_time(data, fd, vars=vars_requested, verbose=False)

missing = [name for name in ('phi_density', 'twice_gammadet', 'chained')
           if name not in out]
assert not missing, (
    f"over_time silently dropped the custom variables {missing}; "
    "driver output: "
    + " | ".join(li for li in log.getvalue().splitlines() if 'rror' in li))
assert np.allclose(out['phi_density'], 3 * 8.0)
assert np.allclose(out['chained'], 2 * 64.0 + 1)
print("ok")
