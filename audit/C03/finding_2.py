"""C03 finding 2: frozen inputs are protected only by "strain (= 0) is not
greater than strain_tolerance".  strain_tolerance =
clear_cache_every_nbr_calc * Nx*Ny*Nz*8 is computed with whatever integer type
the grid sizes have; with numpy int32 grid sizes (e.g. read from HDF5
attributes) it wraps to a negative number once Nx*Ny*Nz*8*nbr_calc >= 2**31
(default nbr_calc = 20: any grid >= 238^3; here a small grid with a large
nbr_calc is used so the script is fast).  Then 0 > strain_tolerance, every
entry of the age table - frozen inputs and the value just computed - is
deleted, and the request ends in KeyError."""
import warnings
import numpy as np
import aurel

N = np.int32(8)
param = {'Nx': N, 'Ny': N, 'Nz': N, 'xmin': -1., 'ymin': -1., 'zmin': -1.,
         'dx': 0.25, 'dy': 0.25, 'dz': 0.25}
fd = aurel.FiniteDifference(param, boundary='periodic', fd_order=4,
                            verbose=False)
# 8^3 * 8 B * 10**6 > 2**31 ; cleanup is triggered by the (tiny) memory limit
rel = aurel.AurelCore(fd, verbose=False,
                      clear_cache_every_nbr_calc=10**6,
                      memory_threshold_inGB=1e-6)
frozen = {'gxx': 2 * np.ones(rel.data_shape),
          'kxx': 0.5 * np.ones(rel.data_shape)}
for k, v in frozen.items():
    rel.data[k] = v
rel.freeze_data()

error = None
with warnings.catch_warnings():
    warnings.simplefilter('ignore')
    try:
        for key in ['gammadown3', 'Kdown3', 'gammadet', 'Ktrace']:
            rel[key]
    except Exception as e:  # noqa: BLE001
        error = e
missing = [k for k in frozen if k not in rel.data]
assert error is None and not missing, (
    f"int32 grid sizes: request raised {error!r}; frozen inputs evicted by "
    f"cleanup_cache: {missing}")
assert np.allclose(rel['gammadet'], 2.0) and np.allclose(rel['Ktrace'], 0.25)
print("ok")
