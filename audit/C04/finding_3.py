"""C04 finding 3: Kretschmann (and st_Riemann_uudd4 / st_Riemann_uddd4) are
destroyed by rounding when the lapse is small compared with the shift.

Data: Kasner vacuum (p = 2/3, 2/3, -1/3) at proper time T = 1, written with a
constant small lapse and a constant shift,
    alpha = 1e-4, beta^i = (0.5, -0.25, 0.125), gamma_ij = delta_ij,
    K_ij = -diag(p_i)            (spatially homogeneous: no FD error at all).
Exact Kretschmann scalar = 16 [sum p^2 p'^2-type terms] = 64/27, independent of
lapse and shift.  st_Riemann_down4 is accurate to 1e-13, but the full
contraction with the coordinate-basis g^{mu nu} (entries ~ beta^2/alpha^2)
cancels terms of relative size (beta/alpha)^4.
"""
import numpy as np
import aurel

N = 6
param = dict(Nx=N, Ny=N, Nz=N, xmin=0., ymin=0., zmin=0.,
             dx=0.1, dy=0.1, dz=0.1)
p = (2/3, 2/3, -1/3)
exact = 64 / 27


def kretschmann(alpha):
    fd = aurel.FiniteDifference(param, verbose=False)
    rel = aurel.AurelCore(fd, verbose=False, vacuum=True)
    one = np.ones((N, N, N))
    rel.data['alpha'] = alpha * one
    for b, n in zip((0.5, -0.25, 0.125), 'xyz'):
        rel.data['beta' + n] = b * one
    for pi, n in zip(p, ['xx', 'yy', 'zz']):
        rel.data['k' + n] = -pi * one
    rel.freeze_data()
    return rel['Kretschmann'][2, 2, 2]


errs = {}
for alpha in (1.0, 1e-2, 1e-3, 1e-4, 1e-5):
    K = kretschmann(alpha)
    errs[alpha] = abs(K / exact - 1)
    print("alpha = %7.0e   Kretschmann = %-22.15g relative error %.1e"
          % (alpha, K, errs[alpha]))
assert errs[1.0] < 1e-10, "reference case broken"
assert max(errs.values()) < 1e-8, (
    "Kretschmann is lapse independent (64/27) for these data, but the "
    "relative error is %.1e at alpha=1e-3, %.1e at alpha=1e-4 and %.1e at "
    "alpha=1e-5" % (errs[1e-3], errs[1e-4], errs[1e-5]))
print("OK")
