"""C04 finding 1: vacuum=True drops the cosmological-constant part of the 4D
Ricci tensor, so Riemann / Ricci / Einstein / Kretschmann are O(1) wrong for
matter-free data with Lambda != 0 (de Sitter), and st_Ricci_down4 depends on
whether Tdown4 happens to be cached.

Data: de Sitter in flat slicing with constant non-unit lapse and constant shift
    gamma_ij = a^2 delta_ij,  K_ij = -H a^2 delta_ij,  Lambda = 3 H^2
(spatially homogeneous, so there is no finite-difference error at all).
Exact: R_abcd = Lambda/3 (g_ac g_bd - g_ad g_bc), R_ab = Lambda g_ab,
       R = 4 Lambda, G_ab = -Lambda g_ab, Kretschmann = 8 Lambda^2 / 3.
"""
import numpy as np
import aurel

Lam = 0.6
H = np.sqrt(Lam / 3)
a2 = 1.7
N = 8
param = dict(Nx=N, Ny=N, Nz=N, xmin=0., ymin=0., zmin=0.,
             dx=0.1, dy=0.1, dz=0.1)


def build(vacuum):
    fd = aurel.FiniteDifference(param, verbose=False)
    rel = aurel.AurelCore(fd, verbose=False, Lambda=Lam, vacuum=vacuum)
    one = np.ones((N, N, N))
    rel.data['alpha'] = 1.3 * one
    rel.data['betax'] = 0.2 * one
    rel.data['betay'] = -0.1 * one
    rel.data['betaz'] = 0.05 * one
    for c in ['xx', 'yy', 'zz']:
        rel.data['g' + c] = a2 * one
        rel.data['k' + c] = -H * a2 * one
    rel.freeze_data()
    return rel


def exact(rel):
    g = rel['gdown4']
    R = (Lam / 3) * (np.einsum('ac...,bd...->abcd...', g, g)
                     - np.einsum('ad...,bc...->abcd...', g, g))
    return dict(st_Riemann_down4=R, st_Ricci_down4=Lam * g,
                st_RicciS=4 * Lam * np.ones((N, N, N)),
                Einsteindown4=-Lam * g,
                Kretschmann=8 * Lam**2 / 3 * np.ones((N, N, N)))


def errors(rel):
    ex = exact(rel)
    return {k: np.max(np.abs(rel[k] - v)) / np.max(np.abs(v))
            for k, v in ex.items()}


# sanity: the same data are handled correctly with vacuum=False
e_ref = errors(build(False))
assert max(e_ref.values()) < 1e-10, f"vacuum=False reference broken: {e_ref}"

# history dependence with vacuum=True
relA = build(True)
ricA = relA['st_Ricci_down4'].copy()
relB = build(True)
relB['Tdown4']  # = 0, harmless access
ricB = relB['st_Ricci_down4'].copy()
hist = np.max(np.abs(ricA - ricB)) / np.max(np.abs(ricB))

e_vac = errors(build(True))
msg = ("vacuum=True, Lambda=%.2f, de Sitter data: relative errors %s ; "
       "st_Ricci_down4 changes by %.2e (relative) when Tdown4 was accessed "
       "before" % (Lam, {k: float('%.2e' % v) for k, v in e_vac.items()},
                   hist))
assert max(e_vac.values()) < 1e-8 and hist < 1e-8, msg
print("OK")
