"""C04 finding 2: gdet is history dependent and gup4 / gdet lose the lapse by
cancellation.

gdet() returns -alpha^2 gamma when 'gdown4' is not cached, but the cofactor
determinant of the assembled g_{mu nu} once 'gdown4' is in the cache; gup4 is
always the cofactor inverse of the assembled g_{mu nu}.  Because
g_tt = -alpha^2 + beta_k beta^k, the lapse is lost to rounding when
alpha^2 << beta^2 (collapsed lapse with non-zero shift), although the 3+1 data
determine both quantities to machine precision:
    g = -alpha^2 gamma,  g^tt = -1/alpha^2,  g^ti = beta^i/alpha^2,
    g^ij = gamma^ij - beta^i beta^j / alpha^2.
"""
import numpy as np
import aurel

N = 6
param = dict(Nx=N, Ny=N, Nz=N, xmin=0., ymin=0., zmin=0.,
             dx=0.1, dy=0.1, dz=0.1)
alpha = 1e-6
beta = (0.5, -0.25, 0.125)


def build():
    fd = aurel.FiniteDifference(param, verbose=False)
    rel = aurel.AurelCore(fd, verbose=False)
    one = np.ones((N, N, N))
    rel.data['alpha'] = alpha * one
    for b, n in zip(beta, 'xyz'):
        rel.data['beta' + n] = b * one
    rel.freeze_data()
    return rel


exact_gdet = -alpha**2            # gamma = 1
relA = build()
gdetA = relA['gdet'][0, 0, 0]     # 'gdown4' not cached
relB = build()
relB['gdown4']                    # e.g. the user looked at the metric first
gdetB = relB['gdet'][0, 0, 0]
gup = build()['gup4'][:, :, 0, 0, 0]
b = np.array(beta)
gup_exact = np.zeros((4, 4))
gup_exact[0, 0] = -1 / alpha**2
gup_exact[0, 1:] = gup_exact[1:, 0] = b / alpha**2
gup_exact[1:, 1:] = np.eye(3) - np.outer(b, b) / alpha**2

e_hist = abs(gdetA - gdetB) / abs(exact_gdet)
e_det = abs(gdetB - exact_gdet) / abs(exact_gdet)
e_gup = np.max(np.abs(gup - gup_exact)) / np.max(np.abs(gup_exact))
print("gdet fresh            :", gdetA)
print("gdet after rel['gdown4']:", gdetB)
print("relative errors: history %.2e, gdet %.2e, gup4 %.2e"
      % (e_hist, e_det, e_gup))
assert e_hist < 1e-12, (
    "gdet depends on whether 'gdown4' is cached: %r vs %r (relative "
    "difference %.2e)" % (gdetA, gdetB, e_hist))
assert e_det < 1e-12 and e_gup < 1e-12, (
    "gdet / gup4 lose the lapse by cancellation: relative errors %.2e / %.2e "
    "for alpha=%g, |beta|=%.2f" % (e_det, e_gup, alpha, np.linalg.norm(b)))
print("OK")
