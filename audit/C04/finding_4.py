"""C04 finding 4: with FiniteDifference(boundary='symmetric') the 4D Riemann
tensor (and everything built on it) does not converge at the boundary points,
even for data whose components are all exactly mirror-symmetric (even) about
both end points of every axis.

Data (static, K_ij = 0, alpha = 1, beta = 0):
    ds^2 = -dt^2 + dx^2 + f(x) dy^2 + dz^2,   f = 2 + cos(pi x),  x in [0, 1]
f is even about x = 0 and x = 1, so the 'symmetric' ghost points are exact for
every input field.  Exact: R_xyxy = -f''/2 + f'^2/(4 f)  (= pi^2/2 at x = 0).
The stress tensor consistent with the data is supplied (G_tt = k, G_zz = -k,
k = R_xyxy / f), so the vacuum flag / Lambda are consistent.

The Christoffel symbols are odd functions at the boundary; d3_symmetric mirrors
them as if they were even, so d_x Gamma = 0 there and R_xyxy(0) = 0.
"""
import numpy as np
import aurel

kappa = 8 * np.pi


def run(N, order):
    dx = 1.0 / (N - 1)
    param = dict(Nx=N, Ny=N, Nz=N, xmin=0., ymin=0., zmin=0.,
                 dx=dx, dy=dx, dz=dx)
    fd = aurel.FiniteDifference(param, boundary='symmetric', fd_order=order,
                                verbose=False)
    rel = aurel.AurelCore(fd, verbose=False)
    x = fd.x
    f = 2 + np.cos(np.pi * x)
    fp = -np.pi * np.sin(np.pi * x)
    fpp = -np.pi**2 * np.cos(np.pi * x)
    Rxyxy = -fpp / 2 + fp**2 / (4 * f)
    k = Rxyxy / f
    rel.data['gyy'] = f
    T = np.zeros((4, 4, N, N, N))
    T[0, 0] = k / kappa
    T[3, 3] = -k / kappa
    rel.data['Tdown4'] = T
    rel.freeze_data()
    # first derivatives are fine everywhere (Gamma^x_yy = -f'/2)
    G = rel['st_Gamma_udd4']
    errG = np.max(np.abs(G[1, 2, 2] + fp / 2))
    R = rel['st_Riemann_down4'][1, 2, 1, 2]
    err = np.abs(R - Rxyxy)
    m = order  # points influenced by the boundary treatment
    return errG, err[m:-m].max(), err.max(), R[0, 0, 0], Rxyxy[0, 0, 0]


rows = [run(N, 4) for N in (17, 33)]
for N, r in zip((17, 33), rows):
    print("N=%d: max|dGamma|=%.1e  |dR_xyxy| interior=%.1e  full grid=%.1e  "
          "R_xyxy(x=0): got %.4f expected %.4f" % ((N,) + r))
# Christoffels converge everywhere
assert rows[1][0] < rows[0][0] / 8
# Riemann must converge on the whole grid as well (4th order: factor ~16)
assert rows[1][2] < 1e-2 and rows[1][2] < rows[0][2] / 4, (
    "boundary='symmetric': st_Riemann_down4[x,y,x,y] does not converge at the "
    "boundary: max error %.3g (N=17) -> %.3g (N=33); at x=0 got %.4f, exact "
    "%.4f" % (rows[0][2], rows[1][2], rows[1][3], rows[1][4]))
print("OK")
