"""C12 finding 2: naming 't' in vars makes the cached read depend on the
position of 't' in the list and on the history of the cache.

't' is a column read_data always returns and read_aurel_data explicitly
accepts in vars.  With the ET reader:

  empty cache:
    read_data(it=[0,2], vars=['t','alpha'], split_per_it=False) -> data
    read_data(it=[0,2], vars=['alpha','t'], split_per_it=True)  -> data
    read_data(it=[0,2], vars=['t','alpha'], split_per_it=True)  -> IndexError
  after any cached read of these iterations (warm cache):
    read_data(it=[0,2], vars=['t','alpha'], split_per_it=True)  -> data

So the same call raises or returns depending on what was read before, and
differs from the uncached read of the same arguments.
"""
import contextlib
import io
import os
import tempfile

import h5py
import numpy as np

import aurel.reading as rd

PAR = """ActiveThorns = "CoordBase Carpet ADMBase"
CoordBase::xmin = 0.0
CoordBase::ymin = 0.0
CoordBase::zmin = 0.0
CoordBase::xmax = 4.0
CoordBase::ymax = 4.0
CoordBase::zmax = 4.0
CoordBase::dx = 1.0
CoordBase::dy = 1.0
CoordBase::dz = 1.0
"""


def truth(it, n=4):
    x, y, z = np.meshgrid(np.arange(n), np.arange(n), np.arange(n),
                          indexing='ij')
    return (1e6 + it * 1e3 + x + 10 * y + 100 * z).astype(float)


def make_sim():
    root = tempfile.mkdtemp() + '/'
    n, ghost = 4, 1
    for r, its in enumerate([[0, 2, 4], [4, 6, 8]]):
        d = f'{root}sim/output-{r:04d}/sim/'
        os.makedirs(d)
        with open(f'{root}sim/output-{r:04d}/sim.par', 'w') as fp:
            fp.write(PAR)
        with h5py.File(d + 'alp.h5', 'w') as f:
            for it in its:
                full = truth(it, n)
                for c, (lo, hi) in enumerate([(0, 2), (2, 4)]):
                    pad = np.full((hi - lo + 2 * ghost, n + 2 * ghost,
                                   n + 2 * ghost), -1.0)
                    pad[ghost:-ghost, ghost:-ghost, ghost:-ghost] = \
                        full[lo:hi]
                    ds = f.create_dataset(
                        f'ADMBASE::alp it={it} tl=0 rl=0 c={c}',
                        data=np.transpose(pad, (2, 1, 0)))
                    ds.attrs['cctk_nghostzones'] = np.array([ghost] * 3)
                    ds.attrs['iorigin'] = np.array([lo, 0, 0])
                    ds.attrs['time'] = 1.0 + 0.25 * it
    os.environ['SIMLOC'] = root
    with contextlib.redirect_stdout(io.StringIO()):
        return rd.parameters('sim')


def read(param, **kw):
    with contextlib.redirect_stdout(io.StringIO()):
        return rd.read_data(param, skip_last=False, verbose=False, **kw)


def same(a, b):
    assert list(a['it']) == list(b['it'])
    for k in ('alpha', 't'):
        assert len(a[k]) == len(b[k]) == len(a['it']), k
        for x, y in zip(a[k], b[k]):
            assert x is not None and y is not None and np.array_equal(x, y), k


def main():
    param = make_sim()
    ref = read(param, it=[0, 2], vars=['t', 'alpha'], split_per_it=False)
    assert np.array_equal(ref['alpha'][1], truth(2))
    assert list(ref['t']) == [1.0, 1.5]

    # cold cache, 't' first
    try:
        cold = read(param, it=[0, 2], vars=['t', 'alpha'], split_per_it=True)
    except Exception as e:  # noqa: BLE001
        cold = e

    # warm the cache with the other order (this one works), then repeat
    param2 = make_sim()
    other = read(param2, it=[0, 2], vars=['alpha', 't'], split_per_it=True)
    same(other, ref)
    warm = read(param2, it=[0, 2], vars=['t', 'alpha'], split_per_it=True)
    same(warm, ref)

    assert not isinstance(cold, Exception), (
        "read_data(it=[0,2], vars=['t','alpha'], split_per_it=True) on an "
        f"empty cache raised {type(cold).__name__}: {cold}; the uncached "
        "read, the cached read with vars=['alpha','t'] and the same call on "
        "a warm cache all return the data")
    same(cold, ref)
    print('finding_2: OK')


if __name__ == '__main__':
    main()
