"""C12 finding 1: a variable that a restart does not contain makes the cached
read (split_per_it=True) raise KeyError, while the uncached read of the very
same arguments returns the data of the other variables.

Simulation: restart 0 outputs alp only; restart 1 outputs alp and rho (the
user added HydroBase::rho to the output at the restart). 'rho0' therefore is
one of the simulation's variables and 0, 2 are two of its iterations.

    read_data(param, it=[0, 2], vars=['alpha', 'rho0'], split_per_it=False)
        -> {'it', 't', 'alpha'}   (prints "Variable rho not found")
    read_data(param, it=[0, 2], vars=['alpha', 'rho0'], split_per_it=True)
        -> KeyError: 'rho0'
"""
import contextlib
import io
import os
import tempfile

import h5py
import numpy as np

import aurel.reading as rd

PAR = """ActiveThorns = "CoordBase Carpet ADMBase"
CoordBase::xmin = 0.0
CoordBase::ymin = 0.0
CoordBase::zmin = 0.0
CoordBase::xmax = 4.0
CoordBase::ymax = 4.0
CoordBase::zmax = 4.0
CoordBase::dx = 1.0
CoordBase::dy = 1.0
CoordBase::dz = 1.0
"""
THORN = {'alp': 'ADMBASE', 'rho': 'HYDROBASE'}


def truth(v, it, n=4):
    x, y, z = np.meshgrid(np.arange(n), np.arange(n), np.arange(n),
                          indexing='ij')
    return ((1 + list(THORN).index(v)) * 1e6 + it * 1e3
            + x + 10 * y + 100 * z).astype(float)


def write(fname, v, its, n=4, ghost=1):
    with h5py.File(fname, 'w') as f:
        for it in its:
            full = truth(v, it, n)
            for c, (lo, hi) in enumerate([(0, n // 2), (n // 2, n)]):
                pad = np.full((hi - lo + 2 * ghost, n + 2 * ghost,
                               n + 2 * ghost), -1.0)
                pad[ghost:-ghost, ghost:-ghost, ghost:-ghost] = full[lo:hi]
                ds = f.create_dataset(
                    f'{THORN[v]}::{v} it={it} tl=0 rl=0 c={c}',
                    data=np.transpose(pad, (2, 1, 0)))
                ds.attrs['cctk_nghostzones'] = np.array([ghost] * 3)
                ds.attrs['iorigin'] = np.array([lo, 0, 0])
                ds.attrs['time'] = 1.0 + 0.25 * it


def quiet(fn, *a, **k):
    with contextlib.redirect_stdout(io.StringIO()):
        return fn(*a, **k)


def main():
    root = tempfile.mkdtemp() + '/'
    for r, (its, vs) in enumerate([([0, 2, 4], ['alp']),
                                   ([4, 6, 8], ['alp', 'rho'])]):
        d = f'{root}sim/output-{r:04d}/sim/'
        os.makedirs(d)
        with open(f'{root}sim/output-{r:04d}/sim.par', 'w') as fp:
            fp.write(PAR)
        for v in vs:
            write(d + v + '.h5', v, its)
    os.environ['SIMLOC'] = root
    param = quiet(rd.parameters, 'sim')
    kw = dict(it=[0, 2], vars=['alpha', 'rho0'], skip_last=False,
              verbose=False)

    ref = quiet(rd.read_data, param, split_per_it=False, **kw)
    assert np.array_equal(ref['alpha'][1], truth('alp', 2))

    try:
        got = quiet(rd.read_data, param, split_per_it=True, **kw)
    except Exception as e:  # noqa: BLE001
        raise AssertionError(
            'cached read (split_per_it=True) raised '
            f'{type(e).__name__}: {e}; the uncached read of the same '
            f'arguments returned keys {list(ref)}') from e

    assert list(got['it']) == list(ref['it'])
    for a, b in zip(got['alpha'], ref['alpha']):
        assert np.array_equal(a, b), 'alpha differs cached vs uncached'
    for a, b in zip(got['t'], ref['t']):
        assert np.array_equal(a, b), 't differs cached vs uncached'
    # the unavailable variable: absent (as uncached) or documented Nones
    if 'rho0' in got:
        assert all(x is None for x in got['rho0']), 'rho0 should be None'
    # and the same call once more, now from a warm cache
    got2 = quiet(rd.read_data, param, split_per_it=True, **kw)
    for a, b in zip(got2['alpha'], ref['alpha']):
        assert np.array_equal(a, b)
    print('finding_1: OK')


if __name__ == '__main__':
    main()
