"""C12 finding 3: an iteration whose level has a single component that is
labelled ' c=0' is read with the dataset keys left over from the previous
iteration of the same call, and that foreign data is filed in the cache.

File alp.h5 (one file, chunks inside):
    it=0 : 'ADMBASE::alp it=0 tl=0 rl=0 c=0', '... c=1'   (two components)
    it=2 : 'ADMBASE::alp it=2 tl=0 rl=0 c=0'              (one component)

    read_data(it=[0, 2], vars=['alpha'], split_per_it=True)
        -> 'alpha' at it=2 is the c=1 half of iteration 0 (shape (2,4,4)),
           't' at it=2 is the time of iteration 0, and
           all_iterations/it_2.hdf5 stores both under 'alpha rl=0', 't rl=0'
    read_data(it=[2], vars=['alpha'], split_per_it=True)   -> that wrong data
    read_data(it=[2], vars=['alpha'], split_per_it=False)  -> UnboundLocalError

Responsible: read_ET_group_or_var only assigns relevant_keys_with_c when
actual_cmax != 0 (or when the keys carry no ' c=' at all).
"""
import contextlib
import glob
import io
import os
import tempfile

import h5py
import numpy as np

import aurel.reading as rd

PAR = """ActiveThorns = "CoordBase Carpet ADMBase"
CoordBase::xmin = 0.0
CoordBase::ymin = 0.0
CoordBase::zmin = 0.0
CoordBase::xmax = 4.0
CoordBase::ymax = 4.0
CoordBase::zmax = 4.0
CoordBase::dx = 1.0
CoordBase::dy = 1.0
CoordBase::dz = 1.0
"""


def truth(it, n=4):
    x, y, z = np.meshgrid(np.arange(n), np.arange(n), np.arange(n),
                          indexing='ij')
    return (1e6 + it * 1e3 + x + 10 * y + 100 * z).astype(float)


def tof(it):
    return 1.0 + 0.25 * it


def make_sim():
    root = tempfile.mkdtemp() + '/'
    n, ghost = 4, 1
    # number of components of the level at each iteration
    ncomp = {0: 2, 2: 1, 4: 2, 6: 2}
    for r, its in enumerate([[0, 2, 4], [6]]):
        d = f'{root}sim/output-{r:04d}/sim/'
        os.makedirs(d)
        with open(f'{root}sim/output-{r:04d}/sim.par', 'w') as fp:
            fp.write(PAR)
        with h5py.File(d + 'alp.h5', 'w') as f:
            for it in its:
                full = truth(it, n)
                edges = np.linspace(0, n, ncomp[it] + 1).astype(int)
                for c in range(ncomp[it]):
                    lo, hi = edges[c], edges[c + 1]
                    pad = np.full((hi - lo + 2 * ghost, n + 2 * ghost,
                                   n + 2 * ghost), -1.0)
                    pad[ghost:-ghost, ghost:-ghost, ghost:-ghost] = \
                        full[lo:hi]
                    ds = f.create_dataset(
                        f'ADMBASE::alp it={it} tl=0 rl=0 c={c}',
                        data=np.transpose(pad, (2, 1, 0)))
                    ds.attrs['cctk_nghostzones'] = np.array([ghost] * 3)
                    ds.attrs['iorigin'] = np.array([lo, 0, 0])
                    ds.attrs['time'] = tof(it)
    os.environ['SIMLOC'] = root
    with contextlib.redirect_stdout(io.StringIO()):
        return root, rd.parameters('sim')


def read(param, **kw):
    with contextlib.redirect_stdout(io.StringIO()):
        return rd.read_data(param, vars=['alpha'], restart=0,
                            skip_last=False, verbose=False, **kw)


def main():
    root, param = make_sim()
    problems = []

    try:
        d = read(param, it=[0, 2], split_per_it=True)
        for i, a, t in zip(d['it'], d['alpha'], d['t']):
            if not np.array_equal(a, truth(i)):
                problems.append(
                    f'cached read it=[0,2]: alpha at it={i} has shape '
                    f'{np.shape(a)} and is not the data of it={i}')
            if float(t) != tof(i):
                problems.append(
                    f'cached read it=[0,2]: t at it={i} is {float(t)}, '
                    f'expected {tof(i)}')
    except Exception as e:  # noqa: BLE001
        problems.append(f'cached read it=[0,2] raised {type(e).__name__}: {e}')

    # every dataset in the cache must hold what it is filed under
    for fn in sorted(glob.glob(root + 'sim/output-0000/sim/all_iterations/'
                               + 'it_*.hdf5')):
        it = int(os.path.basename(fn)[3:-5])
        with h5py.File(fn, 'r') as f:
            for k in f.keys():
                val = np.array(f[k])
                want = {'alpha rl=0': truth(it), 't rl=0': tof(it),
                        'it rl=0': it}[k]
                if not np.array_equal(val, want):
                    problems.append(
                        f'cache file it_{it}.hdf5: dataset {k!r} does not '
                        f'hold the data of iteration {it}')

    # single reads of iteration 2, cached and uncached
    res = {}
    for split in (True, False):
        try:
            d = read(param, it=[2], split_per_it=split)
            res[split] = ('ok' if np.array_equal(d['alpha'][0], truth(2))
                          else 'WRONG DATA')
        except Exception as e:  # noqa: BLE001
            res[split] = f'{type(e).__name__}'
    if res[True] != 'ok' or res[False] != 'ok':
        problems.append(
            f'single read of it=[2]: cached -> {res[True]}, '
            f'uncached -> {res[False]}')

    assert not problems, '\n  ' + '\n  '.join(problems)
    print('finding_3: OK')


if __name__ == '__main__':
    main()
