"""Finding 2 (robustness / lower severity): a metric supplied as a rank-2
sympy Array - the very type the class itself returns for its rank-2 tensors
(Ricci_down, Einstein_down) - makes gup and gdet, and therefore every other
quantity, raise AttributeError, because gup()/gdet() call Matrix-only methods
(.inv(), .det()) on whatever was stored in data['gdown'].
"""
import sympy as sp

import aurel

th, ph = sp.symbols('theta phi', real=True)
comps = [[1, 0], [0, sp.sin(th)**2]]

ref = aurel.AurelCoreSymbolic([th, ph], verbose=False)
ref.data['gdown'] = sp.Matrix(comps)

problems = []
for simp in (True, False):
    rel = aurel.AurelCoreSymbolic([th, ph], verbose=False, simplify=simp)
    rel.data['gdown'] = sp.Array(comps)      # same metric, given as an Array
    for key in ['gdet', 'gup', 'Gamma_udd', 'RicciS', 'Einstein_down']:
        try:
            val = rel[key]
        except Exception as e:
            problems.append(f"simplify={simp}: rel['{key}'] raised "
                            f"{type(e).__name__}: {e}")
            continue
        if key == 'RicciS' and sp.simplify(val - 2) != 0:
            problems.append(f"simplify={simp}: RicciS = {val}, expected 2")

assert not problems, "\n".join(problems)
print("ok")
