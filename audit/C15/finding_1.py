"""Finding 1: Einstein_down is built with the binary float 0.5 instead of the
exact rational 1/2, so the "symbolic" Einstein tensor is contaminated by
floating-point round-off:

 * for an exactly given metric the result is not the textbook tensor
   (a 2-sphere of radius^2 = 2/49 gets a NON-ZERO Einstein tensor, although
   G_ab vanishes identically in two dimensions),
 * the result depends on the simplify option (G_{phi phi} is 0 with
   simplify=True and 1.1e-16*sin(theta)**2 with simplify=False),
 * every non-vacuum result carries Float coefficients (3.0*..., 1.0*...).
"""
import sympy as sp

import aurel

th, ph = sp.symbols('theta phi', real=True)
g = sp.Rational(2, 49) * sp.Matrix([[1, 0], [0, sp.sin(th)**2]])

problems = []
results = {}
for simp in (True, False):
    rel = aurel.AurelCoreSymbolic([th, ph], verbose=False, simplify=simp)
    rel.data['gdown'] = g.copy()
    E = rel['Einstein_down']
    comps = [sp.simplify(E[i, j]) for i in range(2) for j in range(2)]
    results[simp] = comps
    # textbook: G_ab = R_ab - (1/2) g_ab R == 0 identically in 2D
    if any(c != 0 for c in comps):
        problems.append(
            f"simplify={simp}: Einstein tensor of a 2-sphere is not zero: "
            f"{comps}")
    if any(sp.sympify(E[i, j]).atoms(sp.Float)
           for i in range(2) for j in range(2)):
        problems.append(
            f"simplify={simp}: Einstein_down of an exactly rational metric "
            f"contains Float atoms")

if results[True] != results[False]:
    problems.append(
        f"result depends on the simplify option: {results[True]} "
        f"vs {results[False]}")

# 4D: FLRW, textbook G_tt = 3 a'^2 / a^2 exactly
t, x, y, z = sp.symbols('t x y z', real=True)
a = sp.Function('a')(t)
rel = aurel.AurelCoreSymbolic([t, x, y, z], verbose=False, simplify=True)
rel.data['gdown'] = sp.diag(-1, a**2, a**2, a**2)
Gtt = rel['Einstein_down'][0, 0]
if Gtt != 3 * sp.diff(a, t)**2 / a**2:
    problems.append(
        f"FLRW G_tt is {Gtt}, textbook is exactly "
        f"{3 * sp.diff(a, t)**2 / a**2}")

assert not problems, "\n".join(problems)
print("ok")
