"""C13 finding 2: data dict without an 'it' column: save_data sorts and
de-duplicates the `it` argument BEFORE pairing it positionally with the
columns, so arrays end up in the file of the wrong iteration."""
import tempfile
import numpy as np
from aurel import reading


def A(k):
    return np.full((2, 2, 2), float(k))


# (a) unsorted it
p = {'datapath': tempfile.mkdtemp()}
data = {'t': [5., 2.], 'rho': [A(5), A(2)]}      # column k <-> it[k]
refused = False
try:
    reading.save_data(p, data, it=[5, 2])
except (ValueError, KeyError):
    refused = True                                # refusing is a valid repair
if not refused:
    r = reading.read_data(p, it=[2, 5])           # returned sorted: [2, 5]
    got = [float(x.flat[0]) for x in r['rho']]
    assert got == [2., 5.] and list(r['t']) == [2., 5.], (
        "save_data(param, {'t':[5.,2.],'rho':[A5,A2]}, it=[5,2]) stored the "
        f"columns under swapped iterations: read it=[2,5] -> rho={got}, "
        f"t={[float(x) for x in r['t']]} (expected [2,5])")

# (b) repeated it
p = {'datapath': tempfile.mkdtemp()}
data = {'t': [1., 1., 2.], 'rho': [A(1), A(1), A(2)]}
refused = False
try:
    reading.save_data(p, data, it=[1, 1, 2])
except (ValueError, KeyError):
    refused = True
if not refused:
    r = reading.read_data(p, it=[2])
    assert float(r['rho'][0].flat[0]) == 2. and float(r['t'][0]) == 2., (
        "save_data(..., it=[1,1,2]) with 3-entry columns stored entry 1 "
        f"(iteration 1) as iteration 2: rho={r['rho'][0].flat[0]}, "
        f"t={r['t'][0]}")
print('ok')
