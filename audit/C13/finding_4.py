"""C13 finding 4: param['datapath'] given as a pathlib.Path (a path, as the
docstring asks for) makes both save_data and read_data raise AttributeError."""
import pathlib
import tempfile
import numpy as np
from aurel import reading

p = {'datapath': pathlib.Path(tempfile.mkdtemp()) / 'out'}
data = {'it': [3], 't': [0.3], 'rho': [np.full((2, 2, 2), 3.)]}
try:
    reading.save_data(p, data, it=[3])
except AttributeError as e:
    raise AssertionError(f"save_data with a pathlib.Path datapath: {e}")
try:
    r = reading.read_data(p, it=[3])
except AttributeError as e:
    raise AssertionError(f"read_data with a pathlib.Path datapath: {e}")
assert np.array_equal(r['rho'][0], data['rho'][0])
assert isinstance(p['datapath'], pathlib.Path), "caller's param was modified"
print('ok')
