"""C13 finding 1: save_data writes ANOTHER iteration's arrays into the file of
an iteration that is not in data['it'] (positional fall-back)."""
import tempfile
import numpy as np
from aurel import reading


def A(k):
    return np.full((2, 2, 2), float(k))


def is_none_or_absent(d, key, idx):
    return key not in d or d[key][idx] is None


# --- (a) explicit iteration that the dictionary does not contain -------------
p = {'datapath': tempfile.mkdtemp()}
data = {'it': [10, 20, 30], 't': [1., 2., 3.], 'rho': [A(10), A(20), A(30)]}
try:
    reading.save_data(p, data, it=[20, 40])   # 40 is not in data['it']
except (ValueError, KeyError, IndexError):
    pass                                      # refusing is a valid repair
r = reading.read_data(p, it=[40])
assert is_none_or_absent(r, 'rho', 0) and r['t'][0] is None, (
    "nothing was saved for iteration 40 (it is not in data['it']), but "
    f"read_data(it=[40]) returns t={r['t'][0]} rho[0,0,0]="
    f"{None if r['rho'][0] is None else r['rho'][0].flat[0]} "
    "(= the arrays of iteration 20)")

# --- (b) default it=[0] with a dictionary that has no iteration 0 ------------
p = {'datapath': tempfile.mkdtemp()}
data = {'it': [10, 20], 't': [1., 2.], 'rho': [A(10), A(20)]}
try:
    reading.save_data(p, data)                # documented default it=[0]
except (ValueError, KeyError, IndexError):
    pass
r = reading.read_data(p, it=[0])
assert is_none_or_absent(r, 'rho', 0) and r['t'][0] is None, (
    "data['it']=[10,20] has no iteration 0, but after save_data(param, data) "
    f"read_data(it=[0]) returns t={r['t'][0]} and the rho of iteration 10")
print('ok')
