"""C13 finding 3: a variable whose name contains '/' is written (as a nested
HDF5 group) but can never be read back, and saving it a second time raises."""
import tempfile
import numpy as np
from aurel import reading

p = {'datapath': tempfile.mkdtemp()}
name = 'rho/rho0'
data = {'it': [0], 't': [0.], name: [np.full((2, 2, 2), 1.)]}
try:
    reading.save_data(p, data, it=[0])
except ValueError:
    # a repair that rejects such names up-front (nothing half-written) is fine
    print('ok (name rejected)')
    raise SystemExit(0)

r = reading.read_data(p, it=[0], vars=[name])
assert r[name][0] is not None and np.array_equal(r[name][0], data[name][0]), (
    f"variable {name!r} was saved without error but read_data(vars=[{name!r}])"
    f" returns {r[name][0]}")
r = reading.read_data(p, it=[0])
assert name in r, (
    f"variable {name!r} was saved but is not listed when reading all "
    f"variables: {list(r)}")
data2 = {'it': [0], 't': [0.], name: [np.full((2, 2, 2), 2.)]}
try:
    reading.save_data(p, data2, it=[0])
except Exception as e:
    raise AssertionError(
        f"overwriting save of {name!r} raises {type(e).__name__}: {e}")
r = reading.read_data(p, it=[0], vars=[name])
assert np.array_equal(r[name][0], data2[name][0]), "overwrite not read back"
print('ok')
