"""Truncated Taylor (jet) arithmetic to order 2 in 4 variables (t, x, y, z):
forward-mode automatic differentiation over numpy arrays of grid points.

A jet J carries value v (shape S), gradient g (4,)+S or None, Hessian h
(4,4)+S or None.  Its *order* is 2, 1 or 0 accordingly.  D(a, k) is the
partial derivative along variable k: it lowers the order by one.  Every
derivative obtained this way is exact to round-off; no finite differences,
no symbolic algebra.
"""
import numpy as np


class J:
    __slots__ = ('v', 'g', 'h')

    def __init__(self, v, g=None, h=None):
        self.v = v
        self.g = g
        self.h = h if g is not None else None

    @property
    def order(self):
        return 2 if self.h is not None else (1 if self.g is not None else 0)

    # ---- arithmetic --------------------------------------------------------
    def __neg__(self):
        return J(-self.v, None if self.g is None else -self.g,
                 None if self.h is None else -self.h)

    def __add__(self, o):
        if not isinstance(o, J):
            return J(self.v + o, self.g, self.h)
        g = None if (self.g is None or o.g is None) else self.g + o.g
        h = None if (self.h is None or o.h is None) else self.h + o.h
        return J(self.v + o.v, g, h)
    __radd__ = __add__

    def __sub__(self, o):
        return self + (-o)

    def __rsub__(self, o):
        return (-self) + o

    def __mul__(self, o):
        if not isinstance(o, J):
            return J(self.v * o, None if self.g is None else self.g * o,
                     None if self.h is None else self.h * o)
        v = self.v * o.v
        g = h = None
        if self.g is not None and o.g is not None:
            g = self.g * o.v + self.v * o.g
            if self.h is not None and o.h is not None:
                cross = self.g[:, None] * o.g[None, :]
                h = (self.h * o.v + self.v * o.h + cross
                     + np.swapaxes(cross, 0, 1))
        return J(v, g, h)
    __rmul__ = __mul__

    def apply(self, f0, f1, f2):
        """Compose with a scalar function given its value and first two
        derivatives at self.v."""
        g = h = None
        if self.g is not None:
            g = f1 * self.g
            if self.h is not None:
                h = f1 * self.h + f2 * (self.g[:, None] * self.g[None, :])
        return J(f0, g, h)

    def recip(self):
        r = 1.0 / self.v
        return self.apply(r, -r * r, 2 * r * r * r)

    def __truediv__(self, o):
        if not isinstance(o, J):
            return self * (1.0 / o)
        return self * o.recip()

    def __rtruediv__(self, o):
        return self.recip() * o

    def __pow__(self, p):
        if isinstance(p, int) and 0 <= p <= 4:
            out = 1.0
            for _ in range(p):
                out = self * out
            return out if isinstance(out, J) else J(np.ones_like(self.v))
        v = self.v ** p
        return self.apply(v, p * self.v ** (p - 1),
                          p * (p - 1) * self.v ** (p - 2))


def D(a, k):
    """Partial derivative along variable k (0=t, 1=x, 2=y, 3=z)."""
    if a.g is None:
        raise ValueError("jet order exhausted")
    return J(a.g[k], None if a.h is None else a.h[k], None)


class JetMath:
    """Elementary functions dispatching on J / ndarray."""

    @staticmethod
    def sin(x):
        if isinstance(x, J):
            s, c = np.sin(x.v), np.cos(x.v)
            return x.apply(s, c, -s)
        return np.sin(x)

    @staticmethod
    def cos(x):
        if isinstance(x, J):
            s, c = np.sin(x.v), np.cos(x.v)
            return x.apply(c, -s, -c)
        return np.cos(x)

    @staticmethod
    def exp(x):
        if isinstance(x, J):
            e = np.exp(x.v)
            return x.apply(e, e, e)
        return np.exp(x)

    @staticmethod
    def log(x):
        if isinstance(x, J):
            r = 1.0 / x.v
            return x.apply(np.log(x.v), r, -r * r)
        return np.log(x)

    @staticmethod
    def sqrt(x):
        if isinstance(x, J):
            s = np.sqrt(x.v)
            return x.apply(s, 0.5 / s, -0.25 / (s * x.v))
        return np.sqrt(x)


M = JetMath


def seed(coords, order=2):
    """coords: 4 arrays (t, x, y, z) of identical shape -> 4 jets."""
    S = np.shape(coords[0])
    out = []
    for k in range(4):
        v = np.asarray(coords[k], dtype=float)
        g = h = None
        if order >= 1:
            g = np.zeros((4,) + S)
            g[k] = 1.0
            if order >= 2:
                h = np.zeros((4, 4) + S)
        out.append(J(v, g, h))
    return out


def const(val, like):
    """Constant jet with the order/shape of `like`."""
    v = np.full_like(like.v, float(val))
    g = None if like.g is None else np.zeros_like(like.g)
    h = None if like.h is None else np.zeros_like(like.h)
    return J(v, g, h)


# ---- small dense linear algebra on nested lists of jets ---------------------
def det3(m):
    return (m[0][0] * (m[1][1] * m[2][2] - m[1][2] * m[2][1])
            - m[0][1] * (m[1][0] * m[2][2] - m[1][2] * m[2][0])
            + m[0][2] * (m[1][0] * m[2][1] - m[1][1] * m[2][0]))


def inv3(m):
    d = det3(m)
    c = [[None] * 3 for _ in range(3)]
    for i in range(3):
        for j in range(3):
            a, b = [k for k in range(3) if k != i], \
                   [k for k in range(3) if k != j]
            minor = (m[a[0]][b[0]] * m[a[1]][b[1]]
                     - m[a[0]][b[1]] * m[a[1]][b[0]])
            c[j][i] = minor * ((-1) ** (i + j)) / d
    return c


def values(t):
    """Nested lists of jets -> ndarray of their values."""
    if isinstance(t, J):
        return t.v
    return np.array([values(x) for x in t])


def grads(t):
    """Nested lists of jets -> ndarray (4, comps..., S) of gradients."""
    if isinstance(t, J):
        return t.g
    sub = [grads(x) for x in t]
    return np.stack(sub, axis=1)


def hessians(t):
    if isinstance(t, J):
        return t.h
    sub = [hessians(x) for x in t]
    return np.stack(sub, axis=2)


def selftest():
    import sympy as sp
    T, X, Y, Z = sp.symbols('t x y z')
    syms = (T, X, Y, Z)
    rng = np.random.RandomState(3)
    pts = [rng.uniform(0.2, 1.3, size=5) for _ in range(4)]
    t, x, y, z = seed(pts)
    exprs = [
        (lambda t, x, y, z, m: m.sin(x * y) * m.exp(-t) + z ** 3 / (1 + x),
         lambda t, x, y, z: sp.sin(x * y) * sp.exp(-t) + z ** 3 / (1 + x)),
        (lambda t, x, y, z, m: m.sqrt(1 + x * x + t * y) ** 1.5
         * m.log(2 + z * m.cos(y)),
         lambda t, x, y, z: sp.sqrt(1 + x * x + t * y) ** sp.Rational(3, 2)
         * sp.log(2 + z * sp.cos(y))),
        (lambda t, x, y, z, m: 1.0 / (x + 2 * y * t) - (3.0 - z) * x,
         lambda t, x, y, z: 1 / (x + 2 * y * t) - (3 - z) * x),
    ]
    for fj, fs in exprs:
        a = fj(t, x, y, z, M)
        e = fs(*syms)
        for p in range(5):
            sub = {s: pts[k][p] for k, s in enumerate(syms)}
            assert abs(a.v[p] - float(e.subs(sub))) < 1e-12
            for i in range(4):
                d1 = float(sp.diff(e, syms[i]).subs(sub))
                assert abs(a.g[i][p] - d1) < 1e-10 * (1 + abs(d1))
                assert abs(D(a, i).v[p] - d1) < 1e-10 * (1 + abs(d1))
                for j in range(4):
                    d2 = float(sp.diff(e, syms[i], syms[j]).subs(sub))
                    assert abs(a.h[i, j][p] - d2) < 1e-9 * (1 + abs(d2))
                    assert abs(D(D(a, i), j).v[p] - d2) < 1e-9 * (
                        1 + abs(d2))
    # linear algebra
    m = [[2 + x, y * 0.1, z * 0.2], [y * 0.1, 3 + t, x * 0.05],
         [z * 0.2, x * 0.05, 1.5 + y]]
    mi = inv3(m)
    for i in range(3):
        for j in range(3):
            s = mi[i][0] * m[0][j] + mi[i][1] * m[1][j] + mi[i][2] * m[2][j]
            assert np.abs(s.v - (i == j)).max() < 1e-13
            assert np.abs(s.g).max() < 1e-12 and np.abs(s.h).max() < 1e-11
    return True
