"""Reference-model self-tests (MANIFEST.setup_cmd).  Nothing to compile."""
import sys, os
sys.path.insert(0, os.path.dirname(os.path.dirname(os.path.abspath(__file__))))
def main():
    from refs import fdweights
    fdweights.selftest()
    print("refs.fdweights ok")
    for name in ("jet", "gr", "etgen", "symref", "harmonics"):
        try:
            mod = __import__("refs." + name, fromlist=["selftest"])
        except ImportError:
            continue
        if hasattr(mod, "selftest"):
            mod.selftest()
            print(f"refs.{name} ok")
    print("setup ok")
if __name__ == "__main__":
    main()
