"""R3 - generator of Einstein-Toolkit (Carpet HDF5) simulation directories.

Mirrors the structure of the four fixture directories shipped with aurel's
tests (inspected): datasets named 'THORN::var it=<it> tl=0 [m=0] rl=<rl>
[c=<c>]', stored (z, y, x), carrying `cctk_nghostzones`, `iorigin`, `time`;
one file or one file per process ('.file_<n>'); one variable or one thorn
group per file; a non-matching 'Parameters and Global Attributes' group.

Ground truth is a plain function of (variable, iteration, level, restart,
global index): integer-valued float64, injective, so any misplacement,
transposition or mix-up of iteration/level/restart/variable changes the
array.
"""
import itertools
import os

import h5py
import numpy as np

# ET variable -> (THORN, group file base, single-variable file base)
VARTABLE = {
    'alp': ('ADMBASE', 'admbase-lapse'),
    'betax': ('ADMBASE', 'admbase-shift'),
    'betay': ('ADMBASE', 'admbase-shift'),
    'betaz': ('ADMBASE', 'admbase-shift'),
    'gxx': ('ADMBASE', 'admbase-metric'),
    'gxy': ('ADMBASE', 'admbase-metric'),
    'gxz': ('ADMBASE', 'admbase-metric'),
    'gyy': ('ADMBASE', 'admbase-metric'),
    'gyz': ('ADMBASE', 'admbase-metric'),
    'gzz': ('ADMBASE', 'admbase-metric'),
    'rho': ('HYDROBASE', 'hydrobase-rho'),
    'trK': ('ML_BSSN', 'ml_bssn-ml_trace_curv'),
    'vel[0]': ('HYDROBASE', 'hydrobase-vel'),
    'vel[1]': ('HYDROBASE', 'hydrobase-vel'),
    'vel[2]': ('HYDROBASE', 'hydrobase-vel'),
    # a thorn group aurel does not know (not in known_groups): its variable
    # list has to be read from the file
    'phi': ('MYTHORN', 'mythorn-fields'),
    'Pi': ('MYTHORN', 'mythorn-fields'),
    'chi': ('MYTHORN', 'mythorn-fields'),
    # bracketed names that aurel does not regroup into a tensor
    'Bvec[0]': ('HYDROBASE', 'hydrobase-bvec'),
    'Bvec[1]': ('HYDROBASE', 'hydrobase-bvec'),
    'Bvec[2]': ('HYDROBASE', 'hydrobase-bvec'),
    # a group of an unknown thorn in which one name is contained in others
    'K': ('MYCURV', 'mycurv-curvs'),
    'Kxx': ('MYCURV', 'mycurv-curvs'),
    'Kxy': ('MYCURV', 'mycurv-curvs'),
}
ALLVARS = list(VARTABLE)
ET_TO_AUREL = {'alp': 'alpha', 'rho': 'rho0', 'trK': 'Ktrace',
               'vel[0]': 'velx', 'vel[1]': 'vely', 'vel[2]': 'velz'}


def aurel_name(v):
    return ET_TO_AUREL.get(v, v)


def g3(ghost):
    """Ghost width per axis: an int (isotropic) or a tuple (gx, gy, gz)."""
    return tuple(ghost) if isinstance(ghost, (tuple, list)) else (ghost,) * 3


def global_array(var, it, rl, restart, shape, ghost):
    """Full array incl. the ghost shell, (x, y, z) order."""
    nx, ny, nz = (s + 2 * g for s, g in zip(shape, g3(ghost)))
    code = (((ALLVARS.index(var) * 4096 + it) * 4 + rl) * 8 + restart)
    idx = np.arange(nx * ny * nz, dtype=np.float64).reshape(nx, ny, nz)
    return code * 100000.0 + idx


def truth(var, it, rl, restart, shape, ghost):
    g = global_array(var, it, rl, restart, shape, ghost)
    gx, gy, gz = g3(ghost)
    nx, ny, nz = g.shape
    return g[gx:nx - gx, gy:ny - gy, gz:nz - gz].copy()


def time_of(it):
    return 1.0 + 0.0625 * it


# ---- decompositions --------------------------------------------------------
def cut_points(n, k, uneven=False):
    """k pieces of an axis of n interior points -> list of (start, stop)."""
    if k == 1:
        return [(0, n)]
    base = [n * i // k for i in range(k + 1)]
    if uneven and k >= 2 and base[1] - base[0] >= 2:
        base[1] -= 1            # move the first cut
    out = [(base[i], base[i + 1]) for i in range(k)]
    assert all(b > a for a, b in out), (n, k, out)
    return out


def tensor_boxes(shape, cuts, uneven=False):
    ax = [cut_points(shape[a], cuts[a], uneven) for a in range(3)]
    # canonical order: x fastest, then y, then z (as Carpet numbers them)
    return [(x, y, z) for z in ax[2] for y in ax[1] for x in ax[0]]


def recursive_boxes(shape, nproc):
    """Carpet-style recursive bisection: split z, then y, then x, putting
    the remainder processes in the upper part (x nested in y nested in z,
    as in the fixture directories)."""
    def split(box, n, axis_order):
        if n == 1:
            return [box]
        lens = [box[a][1] - box[a][0] for a in range(3)]
        for a in axis_order:
            if lens[a] >= 2:
                axis = a
                break
        else:
            raise ValueError("cannot split")
        n1 = n // 2 + n % 2
        n2 = n - n1
        a0, a1 = box[axis]
        mid = a0 + max(1, min(lens[axis] - 1,
                              round(lens[axis] * n1 / n)))
        b1, b2 = list(box), list(box)
        b1[axis] = (a0, mid)
        b2[axis] = (mid, a1)
        nxt = axis_order[1:] + axis_order[:1]
        return split(tuple(b1), n1, nxt) + split(tuple(b2), n2, nxt)
    full = tuple((0, s) for s in shape)
    return split(full, nproc, [2, 1, 0])


def is_tensor_product(boxes):
    xs = sorted({b[0] for b in boxes})
    ys = sorted({b[1] for b in boxes})
    zs = sorted({b[2] for b in boxes})
    return (len(boxes) == len(xs) * len(ys) * len(zs)
            and set(boxes) == set(itertools.product(xs, ys, zs)))


def renumber(boxes, how):
    n = len(boxes)
    if how == 'xfast':
        return list(boxes)
    if how == 'zfast':
        return sorted(boxes, key=lambda b: (b[0][0], b[1][0], b[2][0]))
    if how == 'reversed':
        return list(boxes)[::-1]
    if how == 'rotated':
        k = max(1, n // 3)
        return list(boxes)[k:] + list(boxes)[:k]
    raise ValueError(how)


# ---- writer ----------------------------------------------------------------
def _file_name(var, grouped, proc, c, xyz):
    thorn, gbase = VARTABLE[var]
    base = gbase if grouped else var
    mid = '.xyz' if xyz == 'pre' else ''
    suf = '.xyz' if xyz == 'post' else ''
    if proc:
        return f"{base}{mid}.file_{c}{suf}.h5"
    return f"{base}{mid}{suf}.h5"


def write_restart(path, spec, restart, rspec):
    """Write one output-XXXX/<simname>/ directory."""
    os.makedirs(path, exist_ok=True)
    grouped = spec['grouped']
    proc = spec['proc']
    ghost = spec['ghost']
    xyz = spec.get('xyz', '')
    with_m = spec.get('with_m', False)
    files = {}
    for var in rspec.get('variables', spec['variables']):
        thorn, _ = VARTABLE[var]
        for rl, its in rspec['its'].items():
            shape = spec['shapes'][rl]
            boxes = rspec['boxes'][rl]
            nchunks = len(boxes)
            for it, tl in [(i, t) for i in its
                           for t in range(spec.get('timelevels', 1))]:
                # IOHDF5::output_all_timelevels: past time levels carry the
                # data of other iterations under the same 'it='
                G = global_array(var, it if tl == 0 else it + 7 * tl, rl,
                                 restart, shape, ghost)
                for c, box in enumerate(boxes):
                    (x0, x1), (y0, y1), (z0, z1) = box
                    gx, gy, gz = g3(ghost)
                    sub = G[x0:x1 + 2 * gx, y0:y1 + 2 * gy, z0:z1 + 2 * gz]
                    use_suffix = proc and (
                        nchunks > 1 or spec.get('force_file_suffix', False))
                    fn = _file_name(var, grouped, use_suffix, c, xyz)
                    key = f"{thorn}::{var} it={it} tl={tl}"
                    if with_m:
                        key += " m=0"
                    key += f" rl={rl}"
                    if nchunks > 1 or spec.get('always_c', False):
                        key += f" c={c}"
                    files.setdefault(fn, []).append(
                        (key, np.ascontiguousarray(sub.transpose(2, 1, 0)),
                         (x0 + 3 * rl, y0 + 3 * rl, z0 + 3 * rl), it, rl,
                         thorn, var))
    for fn, dsets in files.items():
        with h5py.File(os.path.join(path, fn), 'w') as f:
            for key, data, iorigin, it, rl, thorn, var in dsets:
                d = f.create_dataset(key, data=data)
                d.attrs['cctk_nghostzones'] = np.array(g3(ghost),
                                                       dtype=np.int32)
                d.attrs['iorigin'] = np.array(iorigin, dtype=np.int32)
                d.attrs['time'] = np.float64(time_of(it))
                d.attrs['timestep'] = np.int32(it)
                d.attrs['level'] = np.int32(rl)
                d.attrs['name'] = np.bytes_(f"{thorn}::{var}")
                d.attrs['group_timelevel'] = np.int32(0)
            g = f.create_group('Parameters and Global Attributes')
            g.attrs['nioprocs'] = np.int32(1)
    for it in rspec.get('checkpoints', []):
        if spec.get('checkpoint_data'):
            write_checkpoint(path, spec, restart, rspec, it)
            continue
        nck = rspec.get('checkpoint_files', 1)
        for c in range(nck):
            name = (f"checkpoint.chkpt.it_{it}.h5" if nck == 1 else
                    f"checkpoint.chkpt.it_{it}.file_{c}.h5")
            with h5py.File(os.path.join(path, name), 'w') as f:
                f.create_group('Parameters and Global Attributes')


def write_checkpoint(path, spec, restart, rspec, it):
    """A checkpoint holding every variable at every level, time levels 0
    and 1 (tl=1 carries other data), one file or one file per process."""
    ghost = spec['ghost']
    files = {}
    for var in rspec.get('variables', spec['variables']):
        thorn, _ = VARTABLE[var]
        for rl in rspec['its']:
            shape = spec['shapes'][rl]
            boxes = rspec['boxes'][rl]
            nchunks = len(boxes)
            for tl in (0, 1):
                G = global_array(var, it if tl == 0 else it + 1, rl,
                                 restart, shape, ghost)
                for c, box in enumerate(boxes):
                    (x0, x1), (y0, y1), (z0, z1) = box
                    gx, gy, gz = g3(ghost)
                    sub = G[x0:x1 + 2 * gx, y0:y1 + 2 * gy, z0:z1 + 2 * gz]
                    per_proc = spec['proc'] and nchunks > 1
                    fn = (f"checkpoint.chkpt.it_{it}.file_{c}.h5"
                          if per_proc else f"checkpoint.chkpt.it_{it}.h5")
                    key = f"{thorn}::{var} it={it} tl={tl} rl={rl}"
                    if nchunks > 1:
                        key += f" c={c}"
                    files.setdefault(fn, []).append(
                        (key, np.ascontiguousarray(sub.transpose(2, 1, 0)),
                         (x0, y0, z0), time_of(it)))
    for fn, dsets in files.items():
        with h5py.File(os.path.join(path, fn), 'w') as f:
            for key, data, iorigin, tm in dsets:
                d = f.create_dataset(key, data=data)
                d.attrs['cctk_nghostzones'] = np.array(g3(ghost),
                                                       dtype=np.int32)
                d.attrs['iorigin'] = np.array(iorigin, dtype=np.int32)
                d.attrs['time'] = np.float64(tm)
            f.create_group('Parameters and Global Attributes')


PAR_TEMPLATE = """# generated
ActiveThorns = "Time CartGrid3D CoordBase"
Cactus::cctk_initial_time = 1
Cactus::terminate         = "time"
CoordBase::xmin = {xmin}
CoordBase::ymin = {xmin}
CoordBase::zmin = {xmin}
CoordBase::xmax = {xmax}
CoordBase::ymax = {xmax}
CoordBase::zmax = {xmax}
CoordBase::dx = {dx}
CoordBase::dy = {dx}
CoordBase::dz = {dx}
CoordBase::boundary_shiftout_x_lower = 1
CoordBase::boundary_shiftout_y_lower = 1
CoordBase::boundary_shiftout_z_lower = 1
CoordBase::boundary_shiftout_x_upper = 1
CoordBase::boundary_shiftout_y_upper = 1
CoordBase::boundary_shiftout_z_upper = 1
driver::ghost_size_x = {gx}
driver::ghost_size_y = {gy}
driver::ghost_size_z = {gz}
IOHDF5::one_file_per_group = {ofpg}
IO::out_dir = $parfile
"""


def write_sim(root, spec):
    """Write <root>/<simname>/output-XXXX/<simname>/...  Returns param."""
    simname = spec['simname']
    for r, rspec in enumerate(spec['restarts']):
        rnum = rspec.get('number', r)
        out = os.path.join(root, simname, f"output-{rnum:04d}")
        data = os.path.join(out, simname)
        os.makedirs(data, exist_ok=True)
        if not rspec.get('empty', False):
            write_restart(data, spec, rnum, rspec)
        if r == 0 or rspec.get('par', False):
            with open(os.path.join(out, simname + '.par'), 'w') as f:
                f.write(PAR_TEMPLATE.format(
                    xmin=0.0, xmax=10.0, dx=1.0, gx=g3(spec['ghost'])[0],
                    gy=g3(spec['ghost'])[1], gz=g3(spec['ghost'])[2],
                    ofpg='"yes"' if spec['grouped'] else '"no"'))
    return make_param(root, simname)


def make_param(root, simname):
    return {'simname': simname, 'simulation': 'ET',
            'simpath': root.rstrip('/') + '/'}


def selftest():
    import shutil
    import tempfile
    d = tempfile.mkdtemp(prefix='etgen_', dir='/dev/shm'
                         if os.path.isdir('/dev/shm') else None)
    try:
        shape = (5, 6, 7)
        boxes = tensor_boxes(shape, (2, 1, 3))
        assert len(boxes) == 6 and is_tensor_product(boxes)
        rb = recursive_boxes(shape, 3)
        assert len(rb) == 3 and not is_tensor_product(rb)
        vol = sum((b[0][1] - b[0][0]) * (b[1][1] - b[1][0])
                  * (b[2][1] - b[2][0]) for b in rb)
        assert vol == 5 * 6 * 7
        spec = {'simname': 's', 'grouped': False, 'proc': True, 'ghost': 2,
                'variables': ['alp'], 'shapes': {0: shape},
                'restarts': [{'its': {0: [0, 2]}, 'boxes': {0: boxes}}]}
        write_sim(d, spec)
        # reassemble by hand (independent of aurel) and compare with truth
        out = np.full(shape, np.nan)
        for c, box in enumerate(boxes):
            fn = os.path.join(d, 's/output-0000/s', f'alp.file_{c}.h5')
            with h5py.File(fn, 'r') as f:
                ds = f[f'ADMBASE::alp it=2 tl=0 rl=0 c={c}']
                a = np.array(ds).transpose(2, 1, 0)[2:-2, 2:-2, 2:-2]
                o = ds.attrs['iorigin']
                out[o[0]:o[0] + a.shape[0], o[1]:o[1] + a.shape[1],
                    o[2]:o[2] + a.shape[2]] = a
        assert np.array_equal(out, truth('alp', 2, 0, 0, shape, 2))
        assert not np.array_equal(truth('alp', 2, 0, 0, shape, 2),
                                  truth('alp', 0, 0, 0, shape, 2))
    finally:
        shutil.rmtree(d, ignore_errors=True)
    return True
