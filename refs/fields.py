"""The spacetime feature lattice (DESIGN Appendix A) and exact families.

Box [0, 2 pi)^3, one wavelength per direction, evaluation time t0 = 0.37.
VERIF_SEED rescales amplitudes by a factor in [0.8, 1.2] and redraws phases;
the structure is fixed.
"""
import numpy as np

from .gr import Spacetime
from .jet import J, M, inv3

T0 = 0.37
LAPSES = ('L0', 'L1', 'L2')
SHIFTS = ('S0', 'S1', 'S2', 'S3')
METRICS = ('G0', 'G1', 'G2')
TIMEDEP = ('D0', 'D1')


class Knobs:
    """Seed-dependent amplitudes/phases (fixed structure)."""

    def __init__(self, seed):
        rng = np.random.RandomState(4242 + 17 * int(seed))
        self.amp = lambda: float(0.8 + 0.4 * rng.rand())
        self.ph = lambda: float(2 * np.pi * rng.rand())
        self.A = [self.amp() for _ in range(64)]
        self.P = [self.ph() for _ in range(64)]


def lattice(lapse, shift, metric, timedep, Lambda=0.0, seed=0):
    k = Knobs(seed)
    A, P = k.A, k.P

    def alpha(t, x, y, z, m):
        if lapse == 'L0':
            return 1.0 + 0.0 * x
        a = (1.0 + 0.15 * A[0] * m.sin(x + P[0]) * m.cos(y + P[1])
             + 0.05 * A[1] * m.sin(z + P[2]))
        if lapse == 'L2':
            a = a * (1.0 + 0.2 * A[2] * m.sin(0.7 * t + P[3]))
        return a

    def beta(t, x, y, z, m):
        zero = 0.0 * x
        if shift == 'S0':
            return [zero, zero, zero]
        c = [0.11 * A[3], -0.07 * A[4], 0.05 * A[5]]
        if shift == 'S1':
            return [c[0] + zero, c[1] + zero, c[2] + zero]
        s2 = [0.08 * A[6] * m.sin(y + P[4]) + 0.03 * A[7] * m.cos(
                  x + z + P[5]),
              0.06 * A[8] * m.cos(z + P[6]) + 0.02 * A[9] * m.sin(x + P[7]),
              0.05 * A[10] * m.sin(x + P[8]) * m.cos(y + P[9])]
        if shift == 'S2':
            return s2
        f = 1.0 + 0.3 * A[11] * m.cos(0.9 * t + P[10])
        return [c[i] + s2[i] * f for i in range(3)]

    def gamma(t, x, y, z, m):
        zero = 0.0 * x
        if metric == 'G0':
            g = [1.0 + 0.10 * A[12] * m.sin(y + P[11]), zero, zero,
                 1.2 + 0.08 * A[13] * m.cos(z + P[12]), zero,
                 0.9 + 0.12 * A[14] * m.sin(x + P[13])]
        elif metric == 'G1':
            psi = (1.0 + 0.1 * A[15] * m.sin(x + P[14]) * m.cos(y + P[15])
                   + 0.05 * A[16] * m.sin(z + P[16]))
            p4 = psi ** 4
            g = [p4, zero, zero, p4, zero, p4]
        else:
            g = [1.0 + 0.10 * A[17] * m.sin(y + P[17])
                 + 0.04 * A[18] * m.cos(z + P[18]),
                 0.04 * A[19] * m.sin(z + P[19])
                 + 0.03 * A[20] * m.cos(x + P[20]),
                 0.05 * A[21] * m.cos(y + P[21]),
                 1.2 + 0.08 * A[22] * m.cos(z + P[22])
                 + 0.03 * A[23] * m.sin(x + P[23]),
                 0.03 * A[24] * m.sin(x + y + P[24]),
                 0.9 + 0.12 * A[25] * m.sin(x + P[25])
                 + 0.04 * A[26] * m.cos(y + P[26])]
        if timedep == 'D1':
            out = []
            for i, c in enumerate(g):
                ac = 0.04 + 0.01 * i
                om = 0.5 + 0.13 * i
                out.append(c * (1.0 + ac * A[30 + i] * m.sin(
                    om * t + P[30 + i])))
            g = out
        return g

    name = f"{lapse}{shift}{metric}{timedep}" + (
        f"Lam{Lambda}" if Lambda else "")
    feats = [f for f in (lapse, shift, metric, timedep) if f[1] != '0']
    if Lambda:
        feats.append('Lambda')
    return Spacetime(name, alpha, beta, gamma, Lambda=Lambda, features=feats)


def from_g4(name, g4func, Lambda=0.0, features=()):
    """Spacetime given by its 4-metric g4func(t,x,y,z,m) -> 4x4 nested list;
    alpha, beta^i, gamma_ij are derived with jet arithmetic."""
    cache = {}

    def parts(t, x, y, z, m):
        # keyed on the object itself (a reference is kept): an `id` can be
        # reused by a new object once the old one has been collected
        if cache.get('t') is not t:
            cache.clear()
            cache['t'] = t
            key = 'parts'
            g4 = g4func(t, x, y, z, m)
            g = [[g4[i + 1][j + 1] for j in range(3)] for i in range(3)]
            if isinstance(g[0][0], J):
                gi = inv3(g)
            else:
                arr = np.array([[g[i][j] + 0 * x for j in range(3)]
                                for i in range(3)])
                mv = np.moveaxis
                inv = mv(np.linalg.inv(mv(mv(arr, 0, -1), 0, -1)),
                         (-2, -1), (0, 1))
                gi = [[inv[i, j] for j in range(3)] for i in range(3)]
            bd = [g4[0][i + 1] for i in range(3)]
            bu = [gi[i][0] * bd[0] + gi[i][1] * bd[1] + gi[i][2] * bd[2]
                  for i in range(3)]
            b2 = bu[0] * bd[0] + bu[1] * bd[1] + bu[2] * bd[2]
            a = m.sqrt(b2 - g4[0][0])
            cache[key] = (a, bu, [g[0][0], g[0][1], g[0][2], g[1][1],
                                  g[1][2], g[2][2]])
        return cache['parts']
    return Spacetime(
        name,
        alpha=lambda t, x, y, z, m: parts(t, x, y, z, m)[0],
        beta=lambda t, x, y, z, m: parts(t, x, y, z, m)[1],
        gamma=lambda t, x, y, z, m: parts(t, x, y, z, m)[2],
        Lambda=Lambda, features=features)


def minkowski_mapped(seed=0, eps=0.1):
    """Minkowski in coordinates x^a = X^a + eps c^a sin(k^a.X + p^a): flat,
    all curvature exactly zero, Christoffels not.  The Jacobian is written
    in closed form (so the metric jet stays at order 2)."""
    k = Knobs(seed + 100)
    K = [[0.6, 1, 0, 1], [0.8, 0, 1, 1], [0.5, 1, 1, 0], [0.7, 1, 0, -1]]
    c = [0.5 * k.A[0], 0.8 * k.A[1], 0.7 * k.A[2], 0.9 * k.A[3]]
    p = k.P[:4]

    def g4(t, x, y, z, m):
        X = [t, x, y, z]
        Jac = [[None] * 4 for _ in range(4)]
        for a in range(4):
            arg = sum((K[a][mu] * X[mu] for mu in range(4)), start=p[a])
            cs = m.cos(arg)
            for mu in range(4):
                Jac[a][mu] = (1.0 if a == mu else 0.0) + eps * c[a] * K[a][
                    mu] * cs
        eta = [-1.0, 1.0, 1.0, 1.0]
        return [[sum((eta[a] * Jac[a][mu] * Jac[a][nu] for a in range(4)),
                     start=0.0) for nu in range(4)] for mu in range(4)]
    return from_g4('minkowski_mapped', g4, features=('flat', 'L', 'S', 'G',
                                                     'D'))


def de_sitter(H=0.3):
    """de Sitter, flat slicing with shift: alpha=1, beta^i=-H x^i,
    gamma=delta (polynomial data: stencils are exact), Lambda = 3 H^2."""
    return Spacetime(
        'de_sitter',
        alpha=lambda t, x, y, z, m: 1.0 + 0.0 * x,
        beta=lambda t, x, y, z, m: [-H * x, -H * y, -H * z],
        gamma=lambda t, x, y, z, m: [1.0 + 0 * x, 0 * x, 0 * x, 1.0 + 0 * x,
                                     0 * x, 1.0 + 0 * x],
        Lambda=3 * H * H, features=('S', 'Lambda', 'exact-stencil'))


def anti_de_sitter(L=2.0):
    """Anti-de Sitter in Poincare coordinates on z > 0:
    ds^2 = (L/z)^2 (-dt^2 + dx^2 + dy^2 + dz^2); static, K = 0, no shift,
    no matter, Lambda = -3/L^2 < 0."""
    return Spacetime(
        'anti_de_sitter',
        alpha=lambda t, x, y, z, m: L / z + 0.0 * x,
        beta=lambda t, x, y, z, m: [0.0 * x, 0.0 * x, 0.0 * x],
        gamma=lambda t, x, y, z, m: [(L / z) ** 2 + 0 * x, 0 * x, 0 * x,
                                     (L / z) ** 2 + 0 * x, 0 * x,
                                     (L / z) ** 2 + 0 * x],
        Lambda=-3.0 / (L * L), features=('L', 'Lambda<0', 'vacuum'))


def quick_corners():
    return [(la, sh, me, td) for la in ('L0', 'L2') for sh in ('S0', 'S3')
            for (me, td) in (('G0', 'D0'), ('G2', 'D1'))]


def full_lattice():
    return [(la, sh, me, td) for la in LAPSES for sh in SHIFTS
            for me in METRICS for td in TIMEDEP]


def grid(N, box=2 * np.pi, offset=0.0):
    """Periodic grid param dict with N^3 points on [offset, offset+box)."""
    d = box / N
    return {'Nx': N, 'Ny': N, 'Nz': N, 'xmin': offset, 'ymin': offset,
            'zmin': offset, 'dx': d, 'dy': d, 'dz': d}


def mesh(param):
    x = param['xmin'] + np.arange(param['Nx']) * param['dx']
    y = param['ymin'] + np.arange(param['Ny']) * param['dy']
    z = param['zmin'] + np.arange(param['Nz']) * param['dz']
    return np.meshgrid(x, y, z, indexing='ij')


def test_fields(seed=0):
    """Smooth periodic test fields with all components distinct:
    returns functions of (t,x,y,z,m): scalar, vec3 (3), vec4 (4), ten (3x3,
    not symmetric)."""
    k = Knobs(seed + 500)
    A, P = k.A, k.P

    def scalar(t, x, y, z, m):
        return (0.3 * A[0] * m.sin(x + P[0]) * m.cos(z + P[1])
                + 0.1 * A[1] * m.cos(y + P[2]) + 0.05 * m.sin(0.8 * t + P[3]))

    def vec3(t, x, y, z, m):
        return [0.2 * A[2] * m.sin(x + P[4]) * m.cos(y + P[5])
                + 0.05 * m.cos(z + P[6]),
                0.15 * A[3] * m.cos(y + P[7]) * m.sin(z + P[8])
                + 0.04 * m.sin(x + P[9]),
                0.25 * A[4] * m.sin(z + P[10]) * m.sin(x + P[11])
                + 0.03 * m.cos(y + P[12])]

    def vec4(t, x, y, z, m):
        v = vec3(t, x, y, z, m)
        f = 1.0 + 0.2 * m.sin(0.6 * t + P[13])
        return [0.3 * A[5] * m.cos(x + y + P[14]) * f
                + 0.1 * m.sin(z + P[15])] + [
            v[i] * (1.0 + 0.1 * (i + 1) * m.cos(0.5 * t + P[16 + i]))
            for i in range(3)]

    def ten(t, x, y, z, m):
        out = [[None] * 3 for _ in range(3)]
        n = 0
        for i in range(3):
            for j in range(3):
                c = [x, y, z][(i + j) % 3]
                d = [x, y, z][(i + 2 * j + 1) % 3]
                out[i][j] = ((0.1 + 0.03 * n) * A[10 + n] * m.sin(
                    c + P[20 + n]) * m.cos(d + P[30 + n])
                    + 0.02 * (n + 1) * m.cos(x + y + z + P[40 + n]))
                n += 1
        return out
    return scalar, vec3, vec4, ten


def poly_spacetime(seed=0):
    """Polynomial (degree <= 2) lapse, shift and spatial metric on [-1,1]^3:
    every finite-difference stencil of order >= 2 differentiates them exactly,
    so the derivative helpers must agree with their definitions to round-off
    (the exact algebraic skeleton, no discretisation error)."""
    k = Knobs(seed + 900)
    A = k.A

    def alpha(t, x, y, z, m):
        return 1.0 + 0.1 * A[0] * x - 0.07 * A[1] * y * z + 0.05 * A[2] * z * z

    def beta(t, x, y, z, m):
        return [0.1 * A[3] + 0.08 * A[4] * y - 0.05 * A[5] * x * z,
                -0.06 * A[6] * z + 0.04 * A[7] * x * x + 0.03 * t,
                0.05 * A[8] * x * y + 0.07 * A[9] * z - 0.02 * A[10] * y * y]

    def gamma(t, x, y, z, m):
        return [1.3 + 0.10 * A[11] * y + 0.05 * A[12] * z * z,
                0.06 * A[13] * x - 0.04 * A[14] * y * z,
                0.05 * A[15] * z + 0.03 * A[16] * x * y,
                1.1 + 0.08 * A[17] * x * x - 0.05 * A[18] * z,
                0.04 * A[19] * x + 0.05 * A[20] * y * y,
                1.5 + 0.09 * A[21] * x * y + 0.06 * A[22] * z + 0.1 * t]
    return Spacetime('poly', alpha, beta, gamma, features=('L', 'S', 'G'))


def poly_test_fields(seed=0):
    """Polynomial (degree <= 2) test fields, all components distinct."""
    k = Knobs(seed + 950)
    A = k.A

    def mono(i, x, y, z, t):
        terms = [x, y, z, x * y, y * z, x * z, x * x, y * y, z * z]
        a, b, c = terms[i % 9], terms[(2 * i + 3) % 9], terms[(5 * i + 1) % 9]
        return (0.2 + 0.03 * i) * A[i % 60] * a - 0.1 * b + 0.05 * (
            i % 4 + 1) * c + 0.1 * (i % 3) + 0.07 * t * (1 + i % 2)

    def scalar(t, x, y, z, m):
        return mono(0, x, y, z, t)

    def vec3(t, x, y, z, m):
        return [mono(1 + i, x, y, z, t) for i in range(3)]

    def vec4(t, x, y, z, m):
        return [mono(5 + i, x, y, z, t) for i in range(4)]

    def ten(t, x, y, z, m):
        return [[mono(10 + 3 * i + j, x, y, z, t) for j in range(3)]
                for i in range(3)]
    return scalar, vec3, vec4, ten
