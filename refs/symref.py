"""R5 - independent symbolic tensors: the textbook definitions in plain sympy
loops, no skipped index combinations, nothing shared with aurel.

Index conventions (those aurel documents): Gamma_udd[i,j,k] = Gamma^i_{jk};
Riemann_uddd[i,j,k,h] = R^i_{jkh} = d_k Gamma^i_{jh} - d_h Gamma^i_{jk}
+ Gamma^i_{km} Gamma^m_{jh} - Gamma^i_{hm} Gamma^m_{jk};
Ricci_down[i,j] = R^k_{ikj}.
"""
import sympy as sp


def tensors(g, coords):
    n = len(coords)
    g = sp.Matrix(g)
    gi = g.inv()
    rng = range(n)
    Gam = [[[sum(gi[i, m] * (sp.diff(g[m, k], coords[j])
                             + sp.diff(g[m, j], coords[k])
                             - sp.diff(g[j, k], coords[m])) for m in rng) / 2
             for k in rng] for j in rng] for i in rng]
    Gd = [[[sum(g[i, m] * Gam[m][j][k] for m in rng) for k in rng]
           for j in rng] for i in rng]
    Riem = [[[[sp.diff(Gam[i][j][h], coords[k])
               - sp.diff(Gam[i][j][k], coords[h])
               + sum(Gam[i][k][m] * Gam[m][j][h] for m in rng)
               - sum(Gam[i][h][m] * Gam[m][j][k] for m in rng)
               for h in rng] for k in rng] for j in rng] for i in rng]
    Rd = [[[[sum(g[i, m] * Riem[m][j][k][h] for m in rng) for h in rng]
            for k in rng] for j in rng] for i in rng]
    Ric = [[sum(Riem[k][i][k][j] for k in rng) for j in rng] for i in rng]
    RS = sum(gi[i, j] * Ric[i][j] for i in rng for j in rng)
    Ein = [[Ric[i][j] - g[i, j] * RS / 2 for j in rng] for i in rng]
    return {'gdown': [[g[i, j] for j in rng] for i in rng],
            'gup': [[gi[i, j] for j in rng] for i in rng],
            'gdet': g.det(), 'Gamma_udd': Gam, 'Gamma_down': Gd,
            'Riemann_uddd': Riem, 'Riemann_down': Rd, 'Ricci_down': Ric,
            'RicciS': RS, 'Einstein_down': Ein}


def flatten(t):
    if isinstance(t, (list, tuple)):
        out = []
        for x in t:
            out += flatten(x)
        return out
    if isinstance(t, (sp.MatrixBase, sp.NDimArray)):
        return flatten(t.tolist())
    return [t]


def evaluate(t, subs):
    """Numeric values (python floats) of all components at one point."""
    out = []
    for e in flatten(t):
        e = sp.sympify(e)
        out.append(float(e.xreplace(subs).evalf(30)) if e.free_symbols
                   else float(e.evalf(30)))
    return out


def evaluate_many(t, coords, points):
    """Numeric values of all components at several points: one lambdify
    (math, cse) per tensor, then plain float evaluation."""
    fl = [sp.sympify(e) for e in flatten(t)]
    try:
        f = sp.lambdify(list(coords), fl, 'math', cse=True)
        out = []
        for p in points:
            out.append([float(v) for v in f(*[float(p[c]) for c in coords])])
        return out
    except Exception:       # noqa: BLE001 - fall back to exact substitution
        return [evaluate(t, p) for p in points]


def selftest():
    th, ph = sp.symbols('theta phi')
    t = tensors([[1, 0], [0, sp.sin(th) ** 2]], [th, ph])
    assert sp.simplify(t['RicciS'] - 2) == 0
    assert sp.simplify(t['Riemann_down'][0][1][0][1] - sp.sin(th) ** 2) == 0
    T, x, y, z = sp.symbols('t x y z', positive=True)
    a = T ** sp.Rational(2, 3)
    f = tensors(sp.diag(-1, a ** 2, a ** 2, a ** 2), [T, x, y, z])
    H = sp.diff(a, T) / a
    assert sp.simplify(f['Einstein_down'][0][0] - 3 * H ** 2) == 0
    return True
