"""R1 - textbook 4D tensor calculus on exact metric jets.

A spacetime is given by closed-form alpha, beta^i, gamma_ij as functions of
(t, x, y, z) written against the JetMath namespace.  Everything below uses
the 4D (and 3D) *definitions* only - none of aurel's 3+1 formulas (Gauss,
Codazzi, Mainardi, BSSN right-hand sides) - so an error there cannot cancel
against the same error here.
"""
import numpy as np

from .jet import D, J, M, const, det3, grads, hessians, inv3, seed, values

KAPPA = 8 * np.pi
SYM6 = [(0, 0), (0, 1), (0, 2), (1, 1), (1, 2), (2, 2)]


class Spacetime:
    """alpha(t,x,y,z,m) -> scalar; beta(...) -> [bx,by,bz];
    gamma(...) -> [xx,xy,xz,yy,yz,zz]; all built from m.sin etc."""

    def __init__(self, name, alpha, beta, gamma, Lambda=0.0, features=()):
        self.name = name
        self.alpha_f, self.beta_f, self.gamma_f = alpha, beta, gamma
        self.Lambda = Lambda
        self.features = tuple(features)

    def fields(self, t, x, y, z):
        one = t * 0.0 + 1.0
        a = self.alpha_f(t, x, y, z, M) * one
        b = [bi * one for bi in self.beta_f(t, x, y, z, M)]
        g6 = [gi * one for gi in self.gamma_f(t, x, y, z, M)]
        g = [[None] * 3 for _ in range(3)]
        for (i, j), c in zip(SYM6, g6):
            g[i][j] = g[j][i] = c
        return a, b, g


def sym3(g6):
    g = [[None] * 3 for _ in range(3)]
    for (i, j), c in zip(SYM6, g6):
        g[i][j] = g[j][i] = c
    return g


class Ref:
    """All reference tensors of one spacetime at the points (t0, X, Y, Z)."""

    def __init__(self, st, t0, X, Y, Z):
        self.st = st
        shape = np.shape(X)
        T = np.full(shape, float(t0))
        self.coords = seed([T, X, Y, Z], order=2)
        t, x, y, z = self.coords
        self.alpha, self.beta, self.gamma = st.fields(t, x, y, z)
        self.Lambda = st.Lambda
        self._c = {}

    # ---- 3+1 variables -----------------------------------------------------
    def gammaup(self):
        if 'gup3' not in self._c:
            self._c['gup3'] = inv3(self.gamma)
        return self._c['gup3']

    def betadown(self):
        return [sum((self.gamma[i][j] * self.beta[j] for j in range(3)),
                    start=0.0) for i in range(3)]

    def K(self):
        """K_ij := -(d_t gamma_ij - L_beta gamma_ij) / (2 alpha); order 1."""
        if 'K' in self._c:
            return self._c['K']
        g, b, a = self.gamma, self.beta, self.alpha
        K = [[None] * 3 for _ in range(3)]
        for i in range(3):
            for j in range(i, 3):
                lie = sum((b[k] * D(g[i][j], k + 1)
                           + g[k][j] * D(b[k], i + 1)
                           + g[i][k] * D(b[k], j + 1) for k in range(3)),
                          start=0.0)
                K[i][j] = K[j][i] = (D(g[i][j], 0) - lie) * (-0.5) / a
        self._c['K'] = K
        return K

    def Ktrace(self):
        gu, K = self.gammaup(), self.K()
        return sum((gu[i][j] * K[i][j] for i in range(3) for j in range(3)),
                   start=0.0)

    # ---- 4-metric and its derivatives as arrays ---------------------------
    def g4_jets(self):
        if 'g4' in self._c:
            return self._c['g4']
        a, b, g = self.alpha, self.beta, self.gamma
        bd = self.betadown()
        g4 = [[None] * 4 for _ in range(4)]
        g4[0][0] = -(a * a) + sum((bd[i] * b[i] for i in range(3)),
                                  start=0.0)
        for i in range(3):
            g4[0][i + 1] = g4[i + 1][0] = bd[i]
            for j in range(3):
                g4[i + 1][j + 1] = g[i][j]
        self._c['g4'] = g4
        return g4

    def metric_arrays(self):
        """G (4,4,S), dG[a] (4,4,4,S) = d_a g_mn, ddG (4,4,4,4,S)."""
        if 'G' not in self._c:
            g4 = self.g4_jets()
            self._c['G'] = (values(g4), grads(g4), hessians(g4))
        return self._c['G']

    def curvature4(self):
        if 'curv4' in self._c:
            return self._c['curv4']
        G, dG, ddG = self.metric_arrays()
        out = curv4_from_arrays(G, dG, ddG)
        out['Tdown4'] = (out['Einstein'] + self.Lambda * G) / KAPPA
        self._c['curv4'] = out
        return out

    # ---- normal, E/B, kinematics of the normal congruence ----------------
    def normal(self):
        a, b = self.alpha.v, [bi.v for bi in self.beta]
        nup = np.array([1 / a, -b[0] / a, -b[1] / a, -b[2] / a])
        ndown = np.array([-a, 0 * a, 0 * a, 0 * a])
        return nup, ndown

    def levicivita4(self):
        c = self.curvature4()
        eps = np.zeros((4, 4, 4, 4) + np.shape(c['gdet']))
        import itertools
        for p in itertools.permutations(range(4)):
            sgn = np.linalg.det(np.eye(4)[list(p)])
            eps[p] = sgn * np.sqrt(-c['gdet'])
        return eps

    def EB(self):
        """E_mn = C_{m a n b} n^a n^b ; B_ae = 1/2 C_{abcd} eps^{cd}_{ef}
        n^b n^f (aurel's stated definition)."""
        c = self.curvature4()
        nup, _ = self.normal()
        E = np.einsum('manb...,a...,b...->mn...', c['Weyl'], nup, nup)
        eps = self.levicivita4()
        eps_uudd = np.einsum('ac...,bd...,abef...->cdef...', c['gup4'],
                             c['gup4'], eps)
        B = 0.5 * np.einsum('b...,f...,abcd...,cdef...->ae...', nup, nup,
                            c['Weyl'], eps_uudd)
        return E, B

    def covd_normal(self):
        """nabla_m n_n with n_n = (-alpha, 0, 0, 0): (4,4,S), first index =
        derivative index."""
        c = self.curvature4()
        a = self.alpha
        dn = np.zeros((4, 4) + np.shape(a.v))
        for m in range(4):
            dn[m, 0] = -a.g[m]
        _, nd = self.normal()
        return dn - np.einsum('lmn...,l...->mn...', c['Gamma'], nd)

    # ---- 3D curvature of gamma and BSSN variables ---------------------------
    def spatial(self):
        if 'sp' not in self._c:
            g = self.gamma
            self._c['sp'] = curv3(values(g), grads(g)[1:],
                                  hessians(g)[1:, 1:])
        return self._c['sp']

    def spatial_conformal(self):
        """Connection and curvature of gamma~_ij = det(gamma)^(-1/3)
        gamma_ij."""
        if 'spc' not in self._c:
            g = self.gamma
            e4 = det3(g) ** (-1.0 / 3.0)
            gt = [[g[i][j] * e4 for j in range(3)] for i in range(3)]
            self._c['spc'] = curv3(values(gt), grads(gt)[1:],
                                   hessians(gt)[1:, 1:])
        return self._c['spc']

    def bssn(self):
        """phi, conformal metric, A~, Gamma~ as jets, and their exact d_t."""
        if 'bssn' in self._c:
            return self._c['bssn']
        g, K = self.gamma, self.K()
        gu = self.gammaup()
        det = det3(g)
        phi = M.log(det) * (1.0 / 12.0)                # order 2
        e4 = M.exp(phi * (-4.0))
        gt = [[g[i][j] * e4 for j in range(3)] for i in range(3)]
        gtu = inv3(gt)                                  # order 2
        Ktr = self.Ktrace()                             # order 1
        A = [[K[i][j] - g[i][j] * Ktr * (1.0 / 3.0) for j in range(3)]
             for i in range(3)]
        At = [[A[i][j] * e4 for j in range(3)] for i in range(3)]
        Gt = [-(sum((D(gtu[i][j], j + 1) for j in range(3)), start=0.0))
              for i in range(3)]                        # order 1
        out = dict(
            phi=phi.v, dtphi=D(phi, 0).v,
            Ktrace=Ktr.v, dtKtrace=D(Ktr, 0).v,
            gammaup=values(gu), dtgammaup=values(
                [[D(gu[i][j], 0) for j in range(3)] for i in range(3)]),
            gt=values(gt), dtgt=values(
                [[D(gt[i][j], 0) for j in range(3)] for i in range(3)]),
            gtup=values(gtu),
            At=values(At), dtAt=values(
                [[D(At[i][j], 0) for j in range(3)] for i in range(3)]),
            Gt=values(Gt), dtGt=values([D(Gt[i], 0) for i in range(3)]),
            K=values(K), A=values(A), dK=grads(K),
        )
        self._c['bssn'] = out
        return out

    # ---- inputs for aurel ------------------------------------------------------
    def aurel_inputs(self, with_T=True):
        c = self.curvature4() if with_T else None
        K = self.K()
        d = {
            'gammadown3': values(self.gamma),
            'Kdown3': values(K),
            'alpha': self.alpha.v,
            'dtalpha': self.alpha.g[0],
            'betaup3': values(self.beta),
            'dtbetaup3': np.array([b.g[0] for b in self.beta]),
        }
        if with_T:
            d['Tdown4'] = c['Tdown4']
        return d


def curv4_from_arrays(G, dG, ddG):
    """4D connection and curvature from the metric G (4,4,S), its first
    derivatives dG[a] = d_a g_mn (4,4,4,S) and second derivatives ddG
    (4,4,4,4,S): the textbook definitions, nothing else."""
    mv = np.moveaxis
    Gi = mv(np.linalg.inv(mv(mv(G, 0, -1), 0, -1)), (-2, -1), (0, 1))
    dGi = -np.einsum('mp...,apq...,qn...->amn...', Gi, dG, Gi)
    Gl = 0.5 * (np.einsum('mln...->lmn...', dG)
                + np.einsum('nlm...->lmn...', dG)
                - dG)
    dGl = 0.5 * (np.einsum('rmln...->rlmn...', ddG)
                 + np.einsum('rnlm...->rlmn...', ddG)
                 - ddG)
    Gam = np.einsum('al...,lmn...->amn...', Gi, Gl)
    dGam = (np.einsum('ral...,lmn...->ramn...', dGi, Gl)
            + np.einsum('al...,rlmn...->ramn...', Gi, dGl))
    Riem = (np.einsum('manb...->abmn...', dGam)
            - np.einsum('namb...->abmn...', dGam)
            + np.einsum('aml...,lnb...->abmn...', Gam, Gam)
            - np.einsum('anl...,lmb...->abmn...', Gam, Gam))
    Rdown = np.einsum('ai...,ibmn...->abmn...', G, Riem)
    Ric = np.einsum('abad...->bd...', Riem)
    RS = np.einsum('bd...,bd...->...', Gi, Ric)
    Ein = Ric - 0.5 * RS * G
    Ruudd = np.einsum('abcd...,be...->aecd...', Riem, Gi)
    Kre = np.einsum('abcd...,cdab...->...', Ruudd, Ruudd)
    Weyl = (Rdown
            - 0.5 * (np.einsum('ac...,db...->abcd...', G, Ric)
                     - np.einsum('ad...,cb...->abcd...', G, Ric)
                     + np.einsum('bd...,ca...->abcd...', G, Ric)
                     - np.einsum('bc...,da...->abcd...', G, Ric))
            + (RS / 6.0) * (np.einsum('ac...,db...->abcd...', G, G)
                            - np.einsum('ad...,cb...->abcd...', G, G)))
    return dict(gdown4=G, gup4=Gi, gdet=np.linalg.det(
        mv(mv(G, 0, -1), 0, -1)), Gamma=Gam, dGamma=dGam,
        Riemann_uddd=Riem, Riemann_down=Rdown, Riemann_uudd=Ruudd,
        Ricci=Ric, RicciS=RS, Einstein=Ein, Kretschmann=Kre, Weyl=Weyl)


def curv3(G, dG, ddG):
    """3D connection and curvature from a metric and its exact first and
    second derivatives: G (3,3,S), dG[k] = d_k g_ij (3,3,3,S), ddG
    (3,3,3,3,S)."""
    mv = np.moveaxis
    Gi = mv(np.linalg.inv(mv(mv(G, 0, -1), 0, -1)), (-2, -1), (0, 1))
    dGi = -np.einsum('mp...,apq...,qn...->amn...', Gi, dG, Gi)
    Gl = 0.5 * (np.einsum('mln...->lmn...', dG)
                + np.einsum('nlm...->lmn...', dG) - dG)
    dGl = 0.5 * (np.einsum('rmln...->rlmn...', ddG)
                 + np.einsum('rnlm...->rlmn...', ddG) - ddG)
    Gam = np.einsum('al...,lmn...->amn...', Gi, Gl)
    dGam = (np.einsum('ral...,lmn...->ramn...', dGi, Gl)
            + np.einsum('al...,rlmn...->ramn...', Gi, dGl))
    Riem = (np.einsum('manb...->abmn...', dGam)
            - np.einsum('namb...->abmn...', dGam)
            + np.einsum('aml...,lnb...->abmn...', Gam, Gam)
            - np.einsum('anl...,lmb...->abmn...', Gam, Gam))
    Rdown = np.einsum('ai...,ibmn...->abmn...', G, Riem)
    Ric = np.einsum('abad...->bd...', Riem)
    RS = np.einsum('bd...,bd...->...', Gi, Ric)
    return dict(gamma=G, gammaup=Gi, dgamma=dG, Gamma=Gam, dGamma=dGam,
                Riemann_uddd=Riem, Riemann_down=Rdown, Ricci=Ric,
                RicciS=RS, det=np.linalg.det(mv(mv(G, 0, -1), 0, -1)))


# ---- self tests ---------------------------------------------------------------
def flrw(power=2.0 / 3.0):
    def a2(t, m):
        return (t * t) ** power if not isinstance(t, J) else t ** (2 * power)
    return Spacetime(
        'flrw',
        alpha=lambda t, x, y, z, m: 1.0 + 0.0 * x,
        beta=lambda t, x, y, z, m: [0.0 * x, 0.0 * x, 0.0 * x],
        gamma=lambda t, x, y, z, m: [a2(t, m) + 0 * x, 0 * x, 0 * x,
                                     a2(t, m) + 0 * x, 0 * x,
                                     a2(t, m) + 0 * x])


def schwarzschild_iso(Mass=1.0):
    def psi4(x, y, z, m):
        r = m.sqrt(x * x + y * y + z * z)
        return (1.0 + Mass / (2.0 * r)) ** 4

    def lapse(t, x, y, z, m):
        r = m.sqrt(x * x + y * y + z * z)
        return (1.0 - Mass / (2.0 * r)) / (1.0 + Mass / (2.0 * r))
    return Spacetime(
        'schwarzschild_iso', alpha=lapse,
        beta=lambda t, x, y, z, m: [0.0 * x, 0.0 * x, 0.0 * x],
        gamma=lambda t, x, y, z, m: [psi4(x, y, z, m), 0 * x, 0 * x,
                                     psi4(x, y, z, m), 0 * x,
                                     psi4(x, y, z, m)])


def selftest():
    rng = np.random.RandomState(5)
    X, Y, Z = (rng.uniform(2.0, 4.0, size=6) for _ in range(3))
    # FLRW dust: a = t^(2/3): G_tt = 3H^2, R = 6(a''/a + H^2), K = -3H
    t0 = 1.7
    r = Ref(flrw(), t0, X, Y, Z)
    c = r.curvature4()
    H = 2.0 / (3.0 * t0)
    assert np.abs(c['Einstein'][0, 0] - 3 * H * H).max() < 1e-12
    addot = (2.0 / 3.0) * (-1.0 / 3.0) / t0 ** 2
    assert np.abs(c['RicciS'] - 6 * (addot + H * H)).max() < 1e-11
    assert np.abs(r.Ktrace().v + 3 * H).max() < 1e-12
    assert np.abs(c['Weyl']).max() < 1e-11
    assert np.abs(c['Tdown4'][0, 0] - 3 * H * H / KAPPA).max() < 1e-13
    assert np.abs(r.spatial()['Ricci']).max() < 1e-12
    # Schwarzschild (isotropic): Ricci flat, Kretschmann = 48 M^2 / R^6
    r = Ref(schwarzschild_iso(), 0.3, X, Y, Z)
    c = r.curvature4()
    assert np.abs(c['Ricci']).max() < 1e-12
    rr = np.sqrt(X * X + Y * Y + Z * Z)
    Rs = rr * (1 + 1 / (2 * rr)) ** 2
    assert np.abs(c['Kretschmann'] / (48.0 / Rs ** 6) - 1).max() < 1e-9
    assert np.abs(c['Weyl'] - c['Riemann_down']).max() < 1e-12
    # algebraic symmetries and first Bianchi identity of the reference
    Rd = c['Riemann_down']
    assert np.abs(Rd + np.einsum('abcd...->bacd...', Rd)).max() < 1e-12
    assert np.abs(Rd - np.einsum('abcd...->cdab...', Rd)).max() < 1e-12
    cyc = (Rd + np.einsum('abcd...->acdb...', Rd)
           + np.einsum('abcd...->adbc...', Rd))
    assert np.abs(cyc).max() < 1e-12
    E, B = r.EB()
    assert np.abs(B).max() < 1e-12 and np.abs(E).max() > 1e-4
    # E trace-free, symmetric
    assert np.abs(np.einsum('mn...,mn...->...', c['gup4'], E)).max() < 1e-12
    return True
