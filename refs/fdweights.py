"""R2 - finite-difference weights in exact rational arithmetic.

weights(offsets) returns the unique weights w_j (Fractions) such that
sum_j w_j f(x0 + o_j h) = h f'(x0) exactly for every polynomial f of degree
< len(offsets).  Independent of aurel: plain Gaussian elimination on the
Vandermonde system  sum_j w_j o_j^k = [k == 1],  k = 0..n-1.
"""
from fractions import Fraction
from functools import lru_cache


@lru_cache(maxsize=None)
def weights(offsets):
    offsets = tuple(offsets)
    n = len(offsets)
    A = [[Fraction(o) ** k for o in offsets] + [Fraction(1 if k == 1 else 0)]
         for k in range(n)]
    for c in range(n):
        piv = next(r for r in range(c, n) if A[r][c] != 0)
        A[c], A[piv] = A[piv], A[c]
        pv = A[c][c]
        A[c] = [x / pv for x in A[c]]
        for r in range(n):
            if r != c and A[r][c] != 0:
                f = A[r][c]
                A[r] = [x - f * y for x, y in zip(A[r], A[c])]
    return tuple(A[r][n] for r in range(n))


def centered(p):
    m = p // 2
    return tuple(range(-m, m + 1))


def reference_row(i, N, p, boundary):
    """{column index: Fraction weight} of the documented stencil for output
    point i of an N-point axis (before division by the spacing)."""
    m = p // 2
    row = {}
    if boundary == 'periodic':
        offs = centered(p)
        for o, w in zip(offs, weights(offs)):
            j = (i + o) % N
            row[j] = row.get(j, Fraction(0)) + w
    elif boundary == 'symmetric':
        offs = centered(p)
        for o, w in zip(offs, weights(offs)):
            j = i + o
            # mirror about the boundary points (boundary point not repeated)
            for _ in range(8):
                if j < 0:
                    j = -j
                elif j > N - 1:
                    j = 2 * (N - 1) - j
                else:
                    break
            row[j] = row.get(j, Fraction(0)) + w
    else:
        if i < m:
            offs = tuple(range(0, p + 1))
        elif i >= N - m:
            offs = tuple(range(-p, 1))
        else:
            offs = centered(p)
        for o, w in zip(offs, weights(offs)):
            j = i + o
            if not 0 <= j < N:
                return None      # stencil does not fit: size unsupported
            row[j] = row.get(j, Fraction(0)) + w
    return {j: w for j, w in row.items() if w != 0}


def reference_reach(i, N, p, boundary):
    """Set of column indices the documented stencil of output point i reads
    (non-zero weight before wrapped / mirrored samples are added up)."""
    m = p // 2
    reach = set()
    if boundary in ('periodic', 'symmetric'):
        offs = centered(p)
    elif i < m:
        offs = tuple(range(0, p + 1))
    elif i >= N - m:
        offs = tuple(range(-p, 1))
    else:
        offs = centered(p)
    for o, w in zip(offs, weights(offs)):
        if w == 0:
            continue
        j = i + o
        if boundary == 'periodic':
            j %= N
        elif boundary == 'symmetric':
            for _ in range(8):
                if j < 0:
                    j = -j
                elif j > N - 1:
                    j = 2 * (N - 1) - j
                else:
                    break
        reach.add(j)
    return reach


def selftest():
    F = Fraction
    assert weights((-1, 0, 1)) == (F(-1, 2), F(0), F(1, 2))
    assert weights((-2, -1, 0, 1, 2)) == (F(1, 12), F(-2, 3), F(0), F(2, 3),
                                          F(-1, 12))
    assert weights((0, 1, 2)) == (F(-3, 2), F(2), F(-1, 2))
    w8 = weights(tuple(range(0, 9)))
    assert w8[0] == F(-761, 280) and w8[3] == F(56, 3) and w8[8] == F(-1, 8)
    w6 = weights(centered(6))
    assert w6[0] == F(-1, 60) and w6[5] == F(-3, 20)
    return True
