"""R6 - independent spin-weighted spherical harmonics.

Built from the ordinary harmonics (sympy Ynm, expanded) with the spin raising
/ lowering operators of Goldberg et al. (J. Math. Phys. 8, 2155, eq. 2.6-2.7):
    eth  eta = -(sin t)^s  (d_t + i/sin t d_p) ((sin t)^-s eta)     s -> s+1
    ethb eta = -(sin t)^-s (d_t - i/sin t d_p) ((sin t)^s  eta)     s -> s-1
    sY_lm = sqrt((l-s)!/(l+s)!) eth^s Y_lm                (0 <= s <= l)
    sY_lm = (-1)^s sqrt((l+s)!/(l-s)!) ethb^-s Y_lm       (-l <= s <= 0)
A different route from the explicit sum used by aurel.maths.sYlm.
"""
from functools import lru_cache

import numpy as np
import sympy as sp

TH, PH = sp.symbols('theta phi', real=True)


def eth(f, s):
    return -(sp.sin(TH) ** s) * (sp.diff(sp.sin(TH) ** (-s) * f, TH)
                                 + sp.I / sp.sin(TH) * sp.diff(
                                     sp.sin(TH) ** (-s) * f, PH))


def ethbar(f, s):
    return -(sp.sin(TH) ** (-s)) * (sp.diff(sp.sin(TH) ** s * f, TH)
                                    - sp.I / sp.sin(TH) * sp.diff(
                                        sp.sin(TH) ** s * f, PH))


@lru_cache(maxsize=None)
def sYlm_expr(s, l, m):
    Y = sp.Ynm(l, m, TH, PH).expand(func=True)
    if abs(s) > l:
        return sp.Integer(0)
    f = Y
    if s >= 0:
        for k in range(s):
            f = eth(f, k)
        norm = sp.sqrt(sp.factorial(l - s) / sp.factorial(l + s))
    else:
        for k in range(0, s, -1):
            f = ethbar(f, k)
        norm = (-1) ** s * sp.sqrt(sp.factorial(l + s)
                                   / sp.factorial(l - s))
    return sp.simplify(norm * f)


@lru_cache(maxsize=None)
def sYlm_func(s, l, m):
    return sp.lambdify([TH, PH], sYlm_expr(s, l, m), 'numpy')


def sYlm(s, l, m, theta, phi):
    v = sYlm_func(s, l, m)(theta, phi)
    return np.broadcast_to(np.asarray(v, dtype=complex), np.shape(theta))


def gauss_legendre_sphere(ntheta, nphi):
    """Nodes (theta, phi meshes) and weights: Gauss-Legendre in cos(theta),
    uniform in phi.  Exact for band-limited integrands."""
    xg, wg = np.polynomial.legendre.leggauss(ntheta)
    theta = np.arccos(xg)
    phi = 2 * np.pi * np.arange(nphi) / nphi
    T, P = np.meshgrid(theta, phi, indexing='ij')
    W = np.repeat(wg[:, None], nphi, axis=1)      # d(cos theta) weights
    return T, P, W, 2 * np.pi / nphi


def selftest():
    T, P, W, dphi = gauss_legendre_sphere(8, 12)
    # s = 0 is the ordinary harmonic; |_{-2}Y_{22}|^2 integrates to 1
    import scipy.special as sc
    y = sYlm(0, 2, 1, T, P)
    ref = sc.sph_harm_y(2, 1, T, P) if hasattr(sc, 'sph_harm_y') else \
        sc.sph_harm(1, 2, P, T)
    assert np.abs(y - ref).max() < 1e-12
    y = sYlm(-2, 2, 2, T, P)
    assert abs(np.sum(np.abs(y) ** 2 * W * dphi) - 1) < 1e-12
    # closed form: _{-2}Y_{22} = sqrt(5/64pi) (1+cos t)^2 e^{2ip}
    cf = np.sqrt(5 / (64 * np.pi)) * (1 + np.cos(T)) ** 2 * np.exp(2j * P)
    assert np.abs(y - cf).max() < 1e-12
    y = sYlm(2, 2, 2, T, P)
    cf = np.sqrt(5 / (64 * np.pi)) * (1 - np.cos(T)) ** 2 * np.exp(2j * P)
    assert np.abs(y - cf).max() < 1e-12
    return True
