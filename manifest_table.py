"""Per-property manifest entries (source of MANIFEST.json)."""
NOT_APPLICABLE = {}
CHECKS = {
 "C07": dict(engine="E2-product", level="model_checking", design_ref="5 C07",
   technique="exhaustive enumeration of the operator matrix (every basis vector, every size/order/boundary/axis) against exact rational Fornberg weights",
   text="Complete decision for every enumerated grid size: the full matrix of each derivative operator (all basis vectors of the grid) is compared entry by entry with exact rational weights, so by linearity the result holds for every real input field; sizes 1..2p+8, 33 (thorough: 64, 101), all orders, boundaries, axes, tensor ranks 0-3.",
   note="Assumes linearity of the operators (superposition is also asserted on all pairs along the axis); trusted base: refs/fdweights.py (Vandermonde solve over Fractions, self-tested against published weights); sizes beyond those enumerated rely on translation invariance of interior rows."),
 "C16": dict(engine="E2-product", level="exploration", design_ref="5 C16",
   technique="exhaustive enumeration of the (axis, N, min, spacing, fd_order) lattice against closed-form expectations",
   text="Every grid of the lattice N in 1..40,64,100,128 x 7 minima x 8 spacings (incl. 0.1, 0.3, 1/3) x axis is constructed and every attribute compared with its closed form; consumers mixing fd.N* and param['N*'] are executed on the small grids; trimming helpers on 1/2/3-D arrays for every order.",
   note="Bounded to the lattice; coordinates compared up to 1e-12*max|coord| + 1e-9*spacing; excision helpers only checked for not touching their argument and keeping non-excised values."),
 "C13": dict(engine="E1-explorer", level="model_checking", design_ref="5 C13",
   technique="explicit-state BFS over sequences of real save_data calls (state = content of the it_*.hdf5 files), every probe read and every file compared with a dict reference store after each transition",
   text="All save sequences to depth 2 over a 96-operation alphabet (4 data dictionaries incl. unsorted iterations, ragged None, None column x 4 iteration selections x 3 variable selections x 2 levels) and depth 3 on reduced alphabets, for three path styles; after every transition 48 probe reads and every dataset on disk are compared with the reference model and the caller's arguments are digested.",
   note="Reference semantics: lookup by iteration value, None skipped, later saves overwrite. Iterations absent from data['it'] are outside the statement. Bounded depth 2-3."),
 "C11": dict(engine="E2-product", level="exploration", design_ref="5 C11",
   technique="exhaustive enumeration of generated Einstein-Toolkit directories (layout x decomposition x ghost x numbering x file order x restarts x levels x requests) against generator ground truth, exact equality",
   text="840 generated directories (quick): 4 layouts x all 27 tensor-product cuts {1,2,3}^3 even/uneven x ghost widths, chunk numberings x file enumeration orders, >27 chunks and Carpet-style recursive layouts, 1-3 restarts with overlapping iterations and two refinement levels x request menus; join_chunks additionally driven with every insertion order (<=4 chunks) / all rotations and reversals; name maps checked entry by entry.",
   note="Trusted base: refs/etgen.py (self-tested by an independent reassembly). Restarts use uniform aligned strides; recursive layouts may raise; hash-seed axis only in the thorough tier."),
 "C12": dict(engine="E1-explorer", level="model_checking", design_ref="5 C12",
   technique="explicit-state BFS over sequences of real read_data calls on a generated simulation (state = content of every per-iteration cache file); returned arrays and every cached dataset compared with generator ground truth after each transition",
   text="All read sequences to depth 2 over a 23-operation alphabet (iteration subsets incl. unsorted, tensor vs component names, two levels, split on/off, explicit restart) and depth 3 over a 9-operation alphabet, for each of the four layouts, from an empty cache; thorough adds the 288-operation alphabet at depth 2 and depth 3 on the 23-operation one.",
   note="Ground truth from refs/etgen.py; state abstraction = set of cached datasets with digests (iterations.txt/content.txt are functions of the directory). Bounded depth."),
}
