#!/venv/bin/python
"""benign/SUMMARY.md from benign/*/result.json (property-preserving changes)."""
import glob, json, os, re
V = os.path.dirname(os.path.dirname(os.path.abspath(__file__)))
rows = []
for rf in sorted(glob.glob(os.path.join(V, 'benign', '*', 'result.json'))):
    r = json.load(open(rf))
    d = os.path.dirname(rf)
    patch = open(os.path.join(d, 'patch.diff')).read()
    files = sorted(set(os.path.basename(f) for f in
                       re.findall(r'^\+\+\+ b/(\S+)', patch, re.M)))
    n = sum(1 for l in patch.splitlines()
            if l[:1] in '+-' and l[:3] not in ('+++', '---'))
    if r.get('evaluated') is False:
        res = 'not evaluated (time)'
    else:
        al = {p: v['signatures'][:2] for p, v in r.get('checks', {}).items()
              if v['exit'] != 0}
        res = ('silent' if not al else 'ALARM at first evaluation: '
               + '; '.join(s for v in al.values() for s in v))
        if r.get('verdict'):
            res += f" - {r['verdict']}"
        if not r.get('suite_passes_with_change', True):
            res += ' (changes the pinned test ids)'
    rows.append(f"| {r['id']} | {', '.join(files)} | {n} | "
                f"{', '.join(r.get('properties_run', []))} | {res} |")
out = ["# Property-preserving changes (DESIGN 13.8)", "",
       "`<pid>_<n>`: first wave (refactors, equivalent reformulations, "
       "restructurings); `<pid>w2_<n>`: second wave (observable behaviour "
       "the property leaves open).", "",
       "| change | files | changed lines | checks run (quick tier) | result |",
       "|---|---|---|---|---|"] + rows
open(os.path.join(V, 'benign', 'SUMMARY.md'), 'w').write('\n'.join(out) + '\n')
print(len(rows), 'changes')
