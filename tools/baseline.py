#!/venv/bin/python
"""Run the repository's pinned test suite in <repo_dir> (default /repo) and
compare with BASELINE.json's stable_pass.  Exit 0 iff every stable test passes.
Usage: tools/baseline.py [repo_dir] [-n workers]"""
import json, os, subprocess, sys, tempfile
import xml.etree.ElementTree as ET
repo = sys.argv[1] if len(sys.argv) > 1 and not sys.argv[1].startswith('-') else '/repo'
nw = '0'
if '-n' in sys.argv:
    nw = sys.argv[sys.argv.index('-n') + 1]
base = json.load(open('/root/.vp/BASELINE.json'))
xml = tempfile.mktemp(suffix='.xml')
env = dict(os.environ, PYTHONPATH=os.path.join(repo, 'src'))
cmd = ['/venv/bin/python', '-m', 'pytest', '-q', '-p', 'no:cacheprovider',
       '--timeout=900', '--continue-on-collection-errors', '--junitxml=' + xml,
       '-n', nw]
p = subprocess.run(cmd, cwd=repo, env=env, capture_output=True, text=True)
passed = set()
for tc in ET.parse(xml).getroot().iter('testcase'):
    if not any(ch.tag in ('failure', 'error', 'skipped') for ch in tc):
        passed.add(f"{tc.get('classname')}::{tc.get('name')}")
os.remove(xml)
missing = [t for t in base['stable_pass'] if t not in passed]
print(p.stdout.strip().splitlines()[-1] if p.stdout.strip() else p.stderr[-300:])
print(f"stable_pass: {len(base['stable_pass'])} expected, {len(missing)} not passing")
for t in missing[:20]:
    print("  NOT PASSING:", t)
sys.exit(1 if missing else 0)
