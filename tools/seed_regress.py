#!/venv/bin/python
"""Regression of the seeded changes against the checks as they are now.

Usage: tools/seed_regress.py [-j STREAMS] [seed ids ...]      (default: all)

For every /verif/seeded/<id>/patch.diff: apply it to a scratch worktree of
/repo at its current HEAD (outside /repo and /verif, removed at the end), run
the quick tier of the check of the property it breaks with VERIF_REPO pointing
at the worktree, undo the patch.  Writes seeded/<id>/regression.json and
prints one line per seed; exit 1 if a seed is no longer reported.
"""
import json
import os
import subprocess
import sys
import tempfile
from concurrent.futures import ThreadPoolExecutor

V = os.path.dirname(os.path.dirname(os.path.abspath(__file__)))
REPO = os.environ.get('VERIF_REPO_BASE', '/repo')


def sh(cmd, **kw):
    return subprocess.run(cmd, shell=True, capture_output=True, text=True,
                          **kw)


def props_of(sid, meta):
    own = sid[:3]
    extra = [p for p in meta.get('detected_by', []) if p != own]
    # a seed is expected to be caught by the check of its own property; where
    # it never was (C05c: an operator defect), by the check that did
    return [own] if own in meta.get('detected_by', [own]) else extra


def stream(args):
    k, sids = args
    wt = tempfile.mkdtemp(prefix=f'seedreg{k}_', dir='/tmp')
    os.rmdir(wt)
    assert sh(f"git -C {REPO} worktree add --detach {wt} HEAD").returncode == 0
    head = sh(f"git -C {REPO} rev-parse --short HEAD").stdout.strip()
    out = []
    try:
        for sid in sids:
            d = os.path.join(V, 'seeded', sid)
            meta = json.load(open(os.path.join(d, 'meta.json')))
            if meta.get('obsolete_since'):
                # the code the change mutates was replaced by a later fix
                print(sid, 'obsolete since', meta['obsolete_since'],
                      flush=True)
                out.append({'id': sid, 'detected': True, 'obsolete': True})
                continue
            patch = os.path.join(d, 'patch.diff')
            # the same change ported by hand where a later fix: commit
            # rewrote the lines the original patch touches
            if os.path.exists(os.path.join(d, 'patch_head.diff')):
                patch = os.path.join(d, 'patch_head.diff')
            r = sh(f"git -C {wt} apply {patch}")
            if r.returncode != 0:
                r = sh(f"git -C {wt} apply --3way {patch}")
            rec = {'id': sid, 'repo_head': head,
                   'patch_applies': r.returncode == 0, 'checks': {}}
            if rec['patch_applies']:
                for p in props_of(sid, meta):
                    c = sh(f"./check {p} --tier quick", cwd=V,
                           env=dict(os.environ, VERIF_REPO=wt))
                    sigs = [ln.split('violation ')[1].split(': ')[0]
                            for ln in c.stdout.splitlines()
                            if '] violation ' in ln]
                    rec['checks'][p] = {'exit': c.returncode,
                                        'signatures': sigs[:6]}
            rec['detected'] = any(v['exit'] == 1
                                  for v in rec['checks'].values())
            sh(f"git -C {wt} reset -q --hard HEAD")
            json.dump(rec, open(os.path.join(d, 'regression.json'), 'w'),
                      indent=1)
            print(sid, 'detected' if rec['detected'] else
                  ('PATCH-DOES-NOT-APPLY' if not rec['patch_applies']
                   else 'NOT-DETECTED'),
                  {p: v['signatures'][:2] for p, v in rec['checks'].items()},
                  flush=True)
            out.append(rec)
    finally:
        sh(f"git -C {REPO} worktree remove --force {wt}")
    return out


def main():
    argv = sys.argv[1:]
    j = 3
    if argv[:1] == ['-j']:
        j = int(argv[1])
        argv = argv[2:]
    sids = argv or sorted(os.listdir(os.path.join(V, 'seeded')))
    sids = [s for s in sids
            if os.path.exists(os.path.join(V, 'seeded', s, 'patch.diff'))]
    parts = [(k, sids[k::j]) for k in range(j)]
    with ThreadPoolExecutor(j) as ex:
        res = [r for part in ex.map(stream, parts) for r in part]
    bad = [r['id'] for r in res if not r['detected']]
    print(f"{len(res)} seeds, {len(res) - len(bad)} detected; "
          f"not detected: {bad}")
    return 1 if bad else 0


if __name__ == '__main__':
    sys.exit(main())
