#!/venv/bin/python
"""Evaluate property-preserving changes (false-alarm test of the checks).

Usage: tools/benign_eval.py <property id> <worktree dir> [more property ids]

<worktree>/ben_out/patch{1,2,3}.diff are changes a maintainer could merge that
keep the property true (written by a sub-agent that saw only the property
text).  For each: apply it to the worktree (which holds the unchanged code),
run the repository suite, run the quick tier of the listed checks with
VERIF_REPO=<worktree>, undo it.  Stores /verif/benign/<pid>_<n>/ (patch.diff,
notes.md, result.json) and prints one line per change.  A check that exits 1
here is either a false alarm of the check or a change that does break the
property after all; which of the two is decided by hand and recorded in
result.json['verdict'] / DESIGN.md 13.8.
"""
import json, os, shutil, subprocess, sys, time
pid, wt, *more = sys.argv[1:]
pids = [pid] + more
TAG = os.environ.get('BENIGN_TAG', '')      # e.g. 'w2' for the second wave
V = os.path.dirname(os.path.dirname(os.path.abspath(__file__)))


def sh(cmd, **kw):
    return subprocess.run(cmd, shell=True, capture_output=True, text=True, **kw)


assert sh(f"git -C {wt} diff --quiet -- src").returncode == 0, \
    "worktree must hold the unchanged code"
for n in (1, 2, 3):
    pf = os.path.join(wt, 'ben_out', f'patch{n}.diff')
    if not os.path.exists(pf) or os.path.getsize(pf) == 0:
        print(f"{pid}{TAG}_{n} no patch")
        continue
    out = {'id': f'{pid}{TAG}_{n}', 'properties_run': pids}
    a = sh(f"git -C {wt} apply {pf}")
    out['patch_applies'] = a.returncode == 0
    if a.returncode == 0:
        r = sh(f"{V}/tools/baseline.py {wt}")
        out['suite_passes_with_change'] = r.returncode == 0
        out['suite_tail'] = r.stdout.strip().splitlines()[-2:]
        det = {}
        for p in pids:
            t0 = time.time()
            r = sh(f"./check {p} --tier quick",
                   env=dict(os.environ, VERIF_REPO=wt), cwd=V)
            sigs = [l.split('violation ')[1].split(': ')[0]
                    for l in r.stdout.splitlines() if '] violation ' in l]
            det[p] = {'exit': r.returncode, 'signatures': sigs[:8],
                      'wall_s': round(time.time() - t0, 1)}
        out['checks'] = det
        out['alarms'] = [p for p, d in det.items() if d['exit'] != 0]
        sh(f"git -C {wt} checkout -- src")
    dst = os.path.join(V, 'benign', f'{pid}{TAG}_{n}')
    os.makedirs(dst, exist_ok=True)
    shutil.copy(pf, os.path.join(dst, 'patch.diff'))
    nf = os.path.join(wt, 'ben_out', 'notes.md')
    if os.path.exists(nf):
        shutil.copy(nf, os.path.join(dst, 'notes.md'))
    json.dump(out, open(os.path.join(dst, 'result.json'), 'w'), indent=1)
    print(out['id'], 'applies' if out['patch_applies'] else 'DOES-NOT-APPLY',
          'suite-ok' if out.get('suite_passes_with_change') else 'SUITE-FAILS',
          'ALARM ' + str({p: det[p]['signatures'][:4] for p in out['alarms']})
          if out.get('alarms') else 'silent', flush=True)
