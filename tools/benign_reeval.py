#!/venv/bin/python
"""Evaluate stored property-preserving changes again (or for the first time).
Usage: tools/benign_reeval.py <benign id> <property id> [more property ids] [-- more '<id> <pids>' groups separated by --]
Applies benign/<id>/patch.diff to a scratch worktree of /repo HEAD (under
/tmp, removed at the end), runs the pinned suite and the quick tier of the
listed checks with VERIF_REPO=<worktree>, rewrites benign/<id>/result.json."""
import json, os, subprocess, sys, tempfile, time
V = os.path.dirname(os.path.dirname(os.path.abspath(__file__)))


def sh(cmd, **kw):
    return subprocess.run(cmd, shell=True, capture_output=True, text=True, **kw)


groups, cur = [], []
for a in sys.argv[1:]:
    if a == '--':
        groups.append(cur); cur = []
    else:
        cur.append(a)
groups.append(cur)
wt = tempfile.mkdtemp(prefix='benre_', dir='/tmp'); os.rmdir(wt)
assert sh(f"git -C /repo worktree add --detach {wt} HEAD").returncode == 0
try:
    for bid, *pids in groups:
        d = os.path.join(V, 'benign', bid)
        out = {'id': bid, 'properties_run': pids}
        a = sh(f"git -C {wt} apply {d}/patch.diff")
        out['patch_applies'] = a.returncode == 0
        if a.returncode == 0:
            r = sh(f"{V}/tools/baseline.py {wt}")
            out['suite_passes_with_change'] = r.returncode == 0
            out['suite_tail'] = r.stdout.strip().splitlines()[-2:]
            det = {}
            for p in pids:
                t0 = time.time()
                r = sh(f"./check {p} --tier quick",
                       env=dict(os.environ, VERIF_REPO=wt), cwd=V)
                sigs = [l.split('violation ')[1].split(': ')[0]
                        for l in r.stdout.splitlines() if '] violation ' in l]
                det[p] = {'exit': r.returncode, 'signatures': sigs[:8],
                          'wall_s': round(time.time() - t0, 1)}
            out['checks'] = det
            out['alarms'] = [p for p, v in det.items() if v['exit'] != 0]
            sh(f"git -C {wt} reset -q --hard HEAD")
        json.dump(out, open(os.path.join(d, 'result.json'), 'w'), indent=1)
        print(bid, 'applies' if out['patch_applies'] else 'DOES-NOT-APPLY',
              'suite-ok' if out.get('suite_passes_with_change') else
              'SUITE-FAILS',
              'ALARM ' + str({p: out['checks'][p]['signatures'][:4]
                              for p in out['alarms']})
              if out.get('alarms') else 'silent', flush=True)
finally:
    sh(f"git -C /repo worktree remove --force {wt}")
