#!/usr/bin/env python3
"""Record a repaired genuine defect: tools/record_fix.py <pids e.g. C13/C02> <commit> <sig[,sig...]> <what failed> <fix subject>
Appends 'fixed' entries to known_findings.json (one per signature) and a row to the table of DESIGN 13.3."""
import json, sys
pids, commit, sigs, what, subject = sys.argv[1:6]
p = '/verif/known_findings.json'
d = json.load(open(p))
for sig in sigs.split(','):
    pid = sig.split(':')[0]
    d['findings'].append({'property': pid, 'signature': sig, 'status': 'fixed', 'commit': commit,
                          'what': what, 'record': f'fixed: property={pid} {commit} {what}'})
json.dump(d, open(p, 'w'), indent=1)
s = open('/verif/DESIGN.md').read()
anchor = "| C02/C01/C03 | momentum inputs absent"
assert anchor in s
s = s.replace(anchor, f"| {pids} | {what} | {subject} |\n" + anchor, 1)
open('/verif/DESIGN.md', 'w').write(s)
print('recorded', pids, commit)
