#!/venv/bin/python
"""Evaluate a seeded change produced in a scratch worktree.
Usage: tools/seed_eval.py <seed id> <worktree dir> <property id> [more property ids to run]
Steps: (1) repository test suite in the worktree vs BASELINE stable_pass,
(2) demo fails with the change / passes without (git stash), (3) the checks
of the listed properties against the worktree (VERIF_REPO), (4) copies
patch.diff, demo.py, notes.md and writes meta.json under /verif/seeded/<id>/.
"""
import json, os, shutil, subprocess, sys, time
sid, wt, *pids = sys.argv[1:]
V = os.path.dirname(os.path.dirname(os.path.abspath(__file__)))
env = dict(os.environ, PYTHONPATH=os.path.join(wt, 'src'))
def sh(cmd, **kw):
    return subprocess.run(cmd, shell=True, capture_output=True, text=True, **kw)
out = {'id': sid, 'worktree': wt, 'properties_run': pids}
r = sh(f"{V}/tools/baseline.py {wt}")
out['suite_passes_with_change'] = r.returncode == 0
out['suite_tail'] = r.stdout.strip().splitlines()[-2:]
demo = os.path.join(wt, 'seed_out', 'demo.py')
r1 = sh(f"/venv/bin/python {demo}", env=env, cwd=wt)
# never `git stash` here: the stash is shared by all worktrees
pf = os.path.join(wt, 'seed_out', '_eval_patch.diff')
open(pf, 'w').write(sh(f"git -C {wt} diff -- src").stdout)
assert sh(f"git -C {wt} apply -R {pf}").returncode == 0
r0 = sh(f"/venv/bin/python {demo}", env=env, cwd=wt)
assert sh(f"git -C {wt} apply {pf}").returncode == 0
out['demo_fails_with_change'] = r1.returncode != 0
out['demo_passes_without_change'] = r0.returncode == 0
det = {}
for pid in pids:
    t0 = time.time()
    r = sh(f"./check {pid} --tier quick", env=dict(os.environ, VERIF_REPO=wt), cwd=V)
    sigs = [l.split('violation ')[1].split(': ')[0] for l in r.stdout.splitlines() if '] violation ' in l]
    det[pid] = {'exit': r.returncode, 'signatures': sigs[:8], 'wall_s': round(time.time() - t0, 1)}
out['checks'] = det
out['detected_by'] = [p for p, d in det.items() if d['exit'] == 1]
dst = os.path.join(V, 'seeded', sid)
os.makedirs(dst, exist_ok=True)
p = sh(f"git -C {wt} diff -- src")
open(os.path.join(dst, 'patch.diff'), 'w').write(p.stdout)
for f in ('demo.py', 'notes.md'):
    src = os.path.join(wt, 'seed_out', f)
    if os.path.exists(src):
        shutil.copy(src, os.path.join(dst, f))
out['ran'] = ["tools/baseline.py <worktree>", "demo.py with/without change (git stash)"] + [f"VERIF_REPO=<worktree> ./check {p} --tier quick" for p in pids]
json.dump(out, open(os.path.join(dst, 'meta.json'), 'w'), indent=1)
print(json.dumps({k: out[k] for k in ('suite_passes_with_change', 'demo_fails_with_change', 'demo_passes_without_change', 'detected_by')}))
for p, d in det.items():
    print(p, d)
