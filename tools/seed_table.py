#!/venv/bin/python
"""Markdown table of the seeded changes from /verif/seeded/*/meta.json."""
import glob, json, os, re
V = os.path.dirname(os.path.dirname(os.path.abspath(__file__)))
rows = []
for mf in sorted(glob.glob(os.path.join(V, 'seeded', '*', 'meta.json'))):
    m = json.load(open(mf))
    sid = m['id']
    patch = open(os.path.join(os.path.dirname(mf), 'patch.diff')).read()
    files = sorted(set(re.findall(r'^\+\+\+ b/(\S+)', patch, re.M)))
    funcs = sorted(set(re.findall(r'^@@.*@@\s*(?:def|class)?\s*(\w+)', patch, re.M)))
    ok = (m['suite_passes_with_change'] and m['demo_fails_with_change']
          and m['demo_passes_without_change'])
    det = ', '.join(m['detected_by']) or 'NOT DETECTED'
    sig = ''
    for p in m['detected_by'][:1]:
        sig = '; '.join(m['checks'][p]['signatures'][:2])
    rows.append(f"| {sid} | {', '.join(os.path.basename(f) for f in files)}: {', '.join(funcs[:3])} | "
                f"{'yes' if ok else 'NO'} | {det} | {sig} |")
print("| seed | site | suite passes, demo discriminates | detected by | first signatures |")
print("|---|---|---|---|---|")
print('\n'.join(rows))
