"""C17 - bundled analytic spacetimes are what they claim to be.

E2: modules x time lattice x 4x4x4 position lattice x analytical flag.
Derivatives of each module's OWN metric function are taken with 8th-order
central stencils in (t, x, y, z) (weights from R2, step ~1e-2 of the scale:
truncation and round-off both < 1e-9), and fed to the textbook 4D curvature
(R1 array form).  Oracles: numeric == lambdified symbolic form; K_ij ==
-(d_t gamma_ij - L_beta gamma_ij)/(2 alpha); G + Lambda g - kappa T == 0;
shipped closed-form scalars == the metric's.
"""
import contextlib
import importlib
import io
import itertools
from fractions import Fraction

import numpy as np
import sympy as sp

from mc import runner
from refs import fdweights, gr

PID = "C17"
KAPPA = 8 * np.pi
P8 = fdweights.centered(8)
W1 = [float(w) for w in fdweights.weights(P8)]


def quiet():
    return contextlib.redirect_stdout(io.StringIO())


def mod(name):
    return importlib.import_module('aurel.solutions.' + name)


def lattice(offset=0.0):
    v = np.array([-2.3, -0.9, 0.8, 2.1]) + offset
    return np.meshgrid(v, v + 0.15, v - 0.1, indexing='ij')


SPECS = {
    # name: (times, position offset, has alpha, has beta, matter, Lambda fn)
    'Non_diagonal': dict(times=(0.7, 1.0, 1.9, 3.2), matter='T'),
    'Rosquist_Jantzen': dict(times=(0.7, 1.0, 1.9, 3.2), matter='T'),
    'Collins_Stewart': dict(times=(0.7, 1.0, 1.9, 3.2), matter='fluid'),
    'Harvey_Tsoubelis': dict(times=(0.7, 1.0, 1.9, 3.2), matter='T'),
    'Conformally_flat': dict(times=(0.7, 1.0, 1.9, 3.2), matter='T',
                             alpha=True),
    'Schwarzschild_isotropic': dict(times=(0.0, 1.0, 1.9, 3.2), matter='T',
                                    alpha=True, offset=3.5),
    'Szekeres': dict(times='cosmo', matter='fluid', alpha=True,
                     Lambda='LCDM'),
    'LCDM': dict(times='cosmo', matter='fluid-t', alpha=True,
                 Lambda='self'),
    'EdS': dict(times='cosmo', matter='fluid-t', alpha=True),
}


def times_of(name):
    spec = SPECS[name]
    if spec['times'] == 'cosmo':
        t0 = mod('EdS').t_today if name == 'EdS' else 2 / (
            3 * mod('LCDM').Hprop_today)
        return tuple(f * t0 for f in (0.3, 0.6, 1.0, 1.4))
    return spec['times']


def metric_parts(name, t, X, Y, Z):
    m = mod(name)
    with quiet():
        g3 = np.asarray(m.gammadown3(t, X, Y, Z), dtype=float)
        a = np.asarray(m.alpha(t, X, Y, Z), dtype=float) if hasattr(
            m, 'alpha') else np.ones(X.shape)
        b = np.asarray(m.betaup3(t, X, Y, Z), dtype=float) if hasattr(
            m, 'betaup3') else np.zeros((3,) + X.shape)
    return a, b, g3


def g4_of(name, t, X, Y, Z):
    a, b, g3 = metric_parts(name, t, X, Y, Z)
    bd = np.einsum('ij...,j...->i...', g3, b)
    g = np.zeros((4, 4) + X.shape)
    g[0, 0] = -a * a + np.einsum('i...,i...->...', b, bd)
    g[0, 1:] = bd
    g[1:, 0] = bd
    g[1:, 1:] = g3
    return g


def steps(name, t):
    ht = 1e-2 * abs(t) if t != 0 else 1e-2
    return [ht, 2e-2, 2e-2, 2e-2]


def shifted(args, k, d):
    a = list(args)
    a[k] = a[k] + d
    return a


def d1(f, args, k, h):
    return sum(W1[i] * f(*shifted(args, k, o * h))
               for i, o in enumerate(P8) if W1[i] != 0) / h


def derivatives(f, args, hs):
    """First and second derivatives of f(t,X,Y,Z) by nested 8th-order
    central differences: dG[a], ddG[a][b]."""
    dG = [d1(f, args, k, hs[k]) for k in range(4)]
    ddG = [[None] * 4 for _ in range(4)]
    for a_ in range(4):
        for b_ in range(a_, 4):
            def inner(*xs, _b=b_):
                return d1(f, list(xs), _b, hs[_b])
            ddG[a_][b_] = ddG[b_][a_] = d1(inner, args, a_, hs[a_])
    return np.array(dG), np.array(ddG)


def matter_T(name, t, X, Y, Z, g4, a):
    m = mod(name)
    kind = SPECS[name]['matter']
    with quiet():
        if kind == 'T':
            return np.asarray(m.Tdown4(t, X, Y, Z), dtype=float)
        if kind == 'fluid':
            rho = np.asarray(m.rho(t, X, Y, Z), dtype=float)
            p = np.asarray(m.press(t, X, Y, Z), dtype=float)
        else:
            rho = m.rho(t) * np.ones(X.shape)
            p = (m.press(t) if hasattr(m, 'press') else 0.0) * np.ones(
                X.shape)
    nd = np.zeros((4,) + X.shape)
    nd[0] = -a
    nn = np.einsum('a...,b...->ab...', nd, nd)
    return rho * nn + p * (g4 + nn)


def lambda_of(name):
    L = SPECS[name].get('Lambda')
    if L == 'LCDM' or L == 'self':
        return mod('LCDM').Lambda
    return 0.0


def module_case(task):
    name, ti = task
    t = times_of(name)[ti]
    off = SPECS[name].get('offset', 0.0)
    X, Y, Z = lattice(off)
    bad = []
    out = {'task': [name, ti], 'bad': bad, 'checks': 0, 'maxres': {}}
    m = mod(name)
    try:
        args = [t, X, Y, Z]

        def f(*xs):
            return g4_of(name, *xs)
        G = f(*args)
        hs = steps(name, t)
        dG, ddG = derivatives(f, args, hs)
        c = gr.curv4_from_arrays(G, dG, ddG)
        a, b, g3 = metric_parts(name, t, X, Y, Z)
        # ---- (b) extrinsic curvature from its definition
        dtg = dG[0][1:, 1:]
        dg = dG[1:][:, 1:, 1:]                    # d_k gamma_ij

        def bfun(*xs):
            return metric_parts(name, *xs)[1]
        db = np.array([d1(bfun, args, k, hs[k]) for k in (1, 2, 3)])
        lie = (np.einsum('k...,kij...->ij...', b, dg)
               + np.einsum('kj...,ik...->ij...', g3, db)
               + np.einsum('ik...,jk...->ij...', g3, db))
        Kdef = -(dtg - lie) / (2 * a)
        with quiet():
            K = np.asarray(m.Kdown3(t, X, Y, Z), dtype=float)
        sc = max(np.abs(Kdef).max(), 1e-3 * np.abs(g3).max() / max(
            abs(t), 1.0))
        e = float(np.abs(K - Kdef).max() / sc)
        out['checks'] += 1
        out['maxres']['K'] = e
        if not e < 1e-7:
            bad.append(('Kdown3-vs-definition', e))
        # ---- (c) Einstein's equations with the module's matter
        T = matter_T(name, t, X, Y, Z, G, a)
        Lam = lambda_of(name)
        res = c['Einstein'] + Lam * G - KAPPA * T
        scale = (np.abs(c['dGamma']).max(axis=(0, 1, 2, 3))
                 + np.abs(c['Gamma']).max(axis=(0, 1, 2)) ** 2)
        scale = scale * np.abs(G).max(axis=(0, 1)) + KAPPA * np.abs(
            T).max(axis=(0, 1)) + abs(Lam)
        e = float((np.abs(res).max(axis=(0, 1)) / scale).max())
        out['checks'] += 1
        out['maxres']['Einstein'] = e
        # the reference derivatives are good to ~1e-9 (largest legitimate
        # residual on the unchanged tree: 1.3e-9, Schwarzschild); a constant
        # rounded to 7 digits in a closed form leaves 1e-7
        tol = 2e-8
        if not e < tol:
            k = np.unravel_index(np.argmax(np.abs(res).max(axis=(0, 1))
                                           / scale), X.shape)
            comp = np.unravel_index(np.argmax(np.abs(res[(slice(None),
                                   slice(None)) + k])), (4, 4))
            bad.append(('Einstein-equations', e,
                        f"component {comp} at point "
                        f"({X[k]:.2f},{Y[k]:.2f},{Z[k]:.2f}): G+Lg="
                        f"{(c['Einstein'] + Lam * G)[comp + k]:.6g} "
                        f"kappa T={KAPPA * T[comp + k]:.6g}"))
        # ---- gdown4 numeric == assembled from alpha, beta, gamma
        if hasattr(m, 'gdown4'):
            with quiet():
                g4m = np.asarray(m.gdown4(t, X, Y, Z), dtype=float)
            out['checks'] += 1
            if not np.allclose(g4m, G, rtol=1e-12, atol=1e-14):
                bad.append(('gdown4-vs-3+1', float(np.abs(g4m - G).max())))
        # ---- (a) numeric == symbolic form
        ts, xs, ys, zs = sp.symbols('t x y z', positive=True)
        for fn in ('gammadown3', 'gdown4', 'alpha'):
            if not hasattr(m, fn):
                continue
            import inspect
            if 'analytical' not in inspect.signature(
                    getattr(m, fn)).parameters:
                continue
            with quiet():
                sym = getattr(m, fn)(ts, xs, ys, zs, analytical=True)
                num = np.asarray(getattr(m, fn)(t, X, Y, Z), dtype=float)
            from refs import symref
            import scipy.special
            flat = symref.flatten(sym) if not isinstance(sym, sp.Expr) \
                else [sym]
            # the symbolic form is an expression in the symbols it was
            # given (lambdify below matches by NAME and would not notice a
            # different symbol that merely prints as 't')
            foreign = set().union(*[sp.sympify(e_).free_symbols
                                    for e_ in flat]) - {ts, xs, ys, zs}
            if foreign:
                bad.append((f'{fn}:symbolic-form-foreign-symbols',
                            sorted(map(repr, foreign))))
            lam = sp.lambdify([ts, xs, ys, zs], flat, [
                {'hyper': lambda a_, b_, z_: scipy.special.hyp2f1(
                    a_[0], a_[1], b_[0], z_)}, 'numpy'])
            vals = lam(t, X, Y, Z)
            ev = np.array([np.broadcast_to(np.asarray(v, float), X.shape)
                           for v in vals]).reshape(num.shape)
            out['checks'] += 1
            sc2 = max(np.abs(num).max(), 1e-300)
            e = float(np.abs(ev - num).max() / sc2)
            if not e < 1e-10:
                bad.append((f'{fn}:numeric-vs-symbolic', e))
        # ---- (d) shipped closed-form scalars
        if name == 'Schwarzschild_isotropic':
            with quiet():
                Kr = m.Kretschmann(t, X, Y, Z)
            e = float(np.abs(Kr / c['Kretschmann'] - 1).max())
            out['checks'] += 1
            if not e < 1e-6:
                bad.append(('Kretschmann', e))
            # outward null expansion of r = const surfaces
            def sfun(*xs_):
                a2, b2, g2 = metric_parts(name, *xs_)
                gi = np.moveaxis(np.linalg.inv(np.moveaxis(np.moveaxis(
                    g2, 0, -1), 0, -1)), (-2, -1), (0, 1))
                r = np.sqrt(xs_[1] ** 2 + xs_[2] ** 2 + xs_[3] ** 2)
                dr = np.array([xs_[1], xs_[2], xs_[3]]) / r
                su = np.einsum('ij...,j...->i...', gi, dr)
                nrm = np.sqrt(np.einsum('i...,i...->...', su, dr))
                return su / nrm
            s_ = sfun(*args)
            ds = np.array([d1(sfun, args, k, hs[k]) for k in (1, 2, 3)])
            sp3 = gr.curv3(g3, dg, np.zeros((3, 3, 3, 3) + X.shape))
            div = np.einsum('ii...->...', ds) + np.einsum(
                'iik...,k...->...', sp3['Gamma'], s_)
            theta = div + np.einsum('ij...,i...,j...->...', K, s_, s_) \
                - np.einsum('ij...,ij...->...', sp3['gammaup'], K)
            with quiet():
                th = m.null_ray_exp_out(t, X, Y, Z)
            e = float(np.abs(th - theta).max() / np.abs(theta).max())
            out['checks'] += 1
            if not e < 1e-6:
                bad.append(('null_ray_exp_out', e))
        if name == 'Conformally_flat':
            with quiet():
                RS = m.st_RicciS(X)
            e = float(np.abs(RS - c['RicciS']).max()
                      / max(np.abs(c['RicciS']).max(), 1e-12))
            out['checks'] += 1
            if not e < 1e-6:
                bad.append(('st_RicciS', e))
    except Exception:     # noqa: BLE001
        import traceback
        bad.append(('raised', traceback.format_exc()[-500:]))
    return out


def schw_expansion_case(task):
    try:
        return _schw_expansion_case(task)
    except Exception:      # noqa: BLE001
        import traceback
        return {'bad': [('null_ray_exp_out:raised',
                         traceback.format_exc()[-300:])], 'checks': 1}


def _schw_expansion_case(task):
    """Schwarzschild_isotropic.null_ray_exp_out against the expansion of the
    r = const surfaces implied by the module's own metric and extrinsic
    curvature, outside AND inside the horizon (0 < r < M/2, where it is
    negative)."""
    region, = task
    m = mod('Schwarzschild_isotropic')
    bad = []
    if region == 'outside':
        X, Y, Z = lattice(3.5)
    else:
        X, Y, Z = [0.08 * c for c in lattice(0.0)]
    r = np.sqrt(X * X + Y * Y + Z * Z)
    t = 1.3

    def flux(t_, x, y, z):
        a, b, g3 = metric_parts('Schwarzschild_isotropic', t_, x, y, z)
        gi = np.moveaxis(np.linalg.inv(np.moveaxis(np.moveaxis(
            g3, 0, -1), 0, -1)), (-2, -1), (0, 1))
        rr = np.sqrt(x * x + y * y + z * z)
        dr = np.array([x, y, z]) / rr
        su = np.einsum('ij...,j...->i...', gi, dr)
        su = su / np.sqrt(np.einsum('i...,i...->...', su, dr))
        sq = np.sqrt(np.linalg.det(np.moveaxis(np.moveaxis(g3, 0, -1), 0,
                                               -1)))
        return su * sq, su, sq
    args = [t, X, Y, Z]
    h = 1e-3 * float(r.min())
    F, su, sq = flux(*args)
    div = sum(d1(lambda *xs, _k=k: flux(*xs)[0][_k - 1], args, k, h)
              for k in (1, 2, 3)) / sq
    with quiet():
        K = np.asarray(m.Kdown3(t, X, Y, Z), dtype=float)
        g3 = np.asarray(m.gammadown3(t, X, Y, Z), dtype=float)
        th = np.asarray(m.null_ray_exp_out(t, X, Y, Z), dtype=float)
    gi = np.moveaxis(np.linalg.inv(np.moveaxis(np.moveaxis(g3, 0, -1), 0,
                                               -1)), (-2, -1), (0, 1))
    theta = div + np.einsum('ij...,i...,j...->...', K, su, su) \
        - np.einsum('ij...,ij...->...', gi, K)
    e = float(np.abs(th - theta).max() / np.abs(theta).max())
    if not e < 1e-6:
        bad.append((f'null_ray_exp_out:{region}', e,
                    f'r in [{r.min():.3f}, {r.max():.3f}]',
                    f'sign of reference: {np.sign(theta).min():.0f}'))
    return {'bad': bad, 'checks': 1}


def dtype_case(task):
    """Every function of (t, x, y, z) of the module gives the same values on
    integer-typed coordinate arrays (what FiniteDifference builds from
    integer grid parameters) as on the same coordinates typed float64."""
    import inspect
    name, ti = task
    m = mod(name)
    ioff = 4 if SPECS[name].get('offset') else 0
    Xi, Yi, Zi = np.meshgrid(np.array([-2, -1, 1, 3]) + ioff,
                             np.array([-3, -1, 2, 4]) + ioff,
                             np.array([-2, 1, 2, 5]) + ioff, indexing='ij')
    t = times_of(name)[ti]
    tt = [(t, float(t))]
    if SPECS[name]['times'] != 'cosmo':
        tt.append((ti + 1, float(ti + 1)))          # integer time as well
    out = {'task': [name, ti], 'bad': [], 'checks': 0, 'maxres': {}}
    for fn, f in sorted(vars(m).items()):
        if not callable(f) or fn.startswith('_'):
            continue
        try:
            pars = list(inspect.signature(f).parameters)
        except (TypeError, ValueError):
            continue
        if pars[:4] != ['t', 'x', 'y', 'z']:
            continue
        for t_i, t_f in tt:
            try:
                with quiet():
                    vi = f(t_i, Xi, Yi, Zi)
                    vf = f(t_f, Xi.astype(float), Yi.astype(float),
                           Zi.astype(float))
                if isinstance(vf, dict):
                    keys = sorted(vf)
                    vi = [vi[k] for k in keys]
                    vf = [vf[k] for k in keys]
                elif not isinstance(vf, (list, tuple)):
                    vi, vf = [vi], [vf]
                for a, b in zip(vi, vf):
                    a, b = np.asarray(a, float), np.asarray(b, float)
                    out['checks'] += 1
                    sc = max(float(np.abs(b).max()), 1e-300)
                    if a.shape != b.shape or not (
                            np.abs(a - b).max() <= 1e-12 * sc):
                        out['bad'].append(
                            (f'{fn}:integer-typed-coordinates',
                             f't={t_i!r}', float(np.abs(a - b).max() / sc)
                             if a.shape == b.shape else 'shape'))
                        break
            except Exception:     # noqa: BLE001
                import traceback
                out['bad'].append((f'{fn}:integer-typed-coordinates:raised',
                                   traceback.format_exc()[-300:]))
    return out


def layout_case(task):
    """The value at a point does not depend on how the points are arranged
    in the arrays: the same 64 positions shuffled inside their (4, 4, 4)
    arrays (no longer a meshgrid) give the shuffled values, for every
    function of (t, x, y, z) of the module."""
    import inspect
    name, ti = task
    m = mod(name)
    off = SPECS[name].get('offset', 0.0)
    X, Y, Z = lattice(off)
    t = times_of(name)[ti]
    perm = np.random.RandomState(5).permutation(X.size)
    Xp, Yp, Zp = (a.ravel()[perm].reshape(a.shape) for a in (X, Y, Z))
    out = {'task': [name, ti], 'bad': [], 'checks': 0, 'maxres': {}}
    for fn, f in sorted(vars(m).items()):
        if not callable(f) or fn.startswith('_'):
            continue
        try:
            pars = list(inspect.signature(f).parameters)
        except (TypeError, ValueError):
            continue
        if pars[:4] != ['t', 'x', 'y', 'z']:
            continue
        try:
            with quiet():
                v0 = f(t, X, Y, Z)
                v1 = f(t, Xp, Yp, Zp)
            if isinstance(v0, dict):
                keys = sorted(v0)
                v0, v1 = [v0[k] for k in keys], [v1[k] for k in keys]
            elif not isinstance(v0, (list, tuple)):
                v0, v1 = [v0], [v1]
            for a, b in zip(v0, v1):
                a, b = np.asarray(a, float), np.asarray(b, float)
                if a.shape[-3:] != X.shape:
                    continue          # not a field on the points
                out['checks'] += 1
                lead = a.shape[:-3]
                ap = a.reshape(lead + (-1,))[..., perm].reshape(a.shape)
                sc = max(float(np.abs(a).max()), 1e-300)
                if b.shape != a.shape or not (
                        np.abs(b - ap).max() <= 1e-12 * sc):
                    out['bad'].append(
                        (f'{fn}:point-layout',
                         float(np.abs(b - ap).max() / sc)
                         if b.shape == a.shape else 'shape'))
                    break
        except Exception:     # noqa: BLE001
            import traceback
            out['bad'].append((f'{fn}:point-layout:raised',
                               traceback.format_exc()[-300:]))
    return out


def icpert_case(task):
    """ICPertFLRW: first-order construction on EdS."""
    from aurel.core import AurelCore
    from aurel.finitedifference import FiniteDifference
    amp_scale, bg, frac = (tuple(task) + ('EdS', 0.05))[:3]
    bad = []
    sol = mod(bg)
    ic = mod('ICPertFLRW')
    N, L = 24, 20000.0      # super-horizon box: (k/aH)^2 Rc << 1
    param = {'Nx': N, 'Ny': N, 'Nz': N, 'xmin': 0., 'ymin': 0., 'zmin': 0.,
             'dx': L / N, 'dy': L / N, 'dz': L / N}
    with quiet():
        fd = FiniteDifference(param, boundary='periodic', fd_order=8,
                              verbose=False)
    t = frac * (sol.t_today if bg == 'EdS' else 2 / (3 * sol.Hprop_today))
    amp = tuple(amp_scale * a_ for a_ in (1e-3, 0.7e-3, 0.4e-3))
    # the bundled Rc_func is a sum of 1D sines (all mixed derivatives
    # vanish); add terms coupling every pair of directions
    k = 2 * np.pi / L
    Rc = ic.Rc_func(fd.x, fd.y, fd.z, amp, (L, L, L)) + amp[0] * (
        0.6 * np.sin(k * (fd.y + fd.z)) + 0.5 * np.sin(k * (fd.x - fd.y))
        + 0.4 * np.sin(k * fd.x) * np.sin(k * fd.z))
    with quiet():
        g = ic.gammadown3(sol, fd, t, Rc)
        K = ic.Kdown3(sol, fd, t, Rc)
        ht = 1e-3 * t
        dtg = sum(W1[i] * ic.gammadown3(sol, fd, t + o * ht, Rc)
                  for i, o in enumerate(P8) if W1[i] != 0) / ht
    # component by component, each on its own scale (the off-diagonal
    # perturbations are tiny next to the background)
    e = 0.0
    for i in range(3):
        for j in range(3):
            ref_ = -0.5 * dtg[i, j]
            e = max(e, float(np.abs(K[i, j] - ref_).max()
                             / max(np.abs(ref_).max(), 1e-300)))
    # on LCDM the module uses the growth-index fit f = Omega_m^(6/11); the
    # identity then holds up to the accuracy of that fit (measured on the
    # unchanged tree: 2e-8, 3e-5, 5e-4 at Omega_m = 0.998, 0.94, 0.79)
    tol = max(1e-6, 0.05 * (1 - float(sol.Omega_m(t))) ** 2)
    if not e < tol:
        bad.append((f'K=-1/2 dt gamma on {bg}', e, f't={frac} t0',
                    f'tolerance {tol:.1e}'))
    with quiet():
        rel = AurelCore(fd, verbose=False)
        rel.data['gammadown3'] = g
        rel.data['Kdown3'] = K
        delta = ic.delta1(sol, fd, t, Rc)
        rel.data['rho0'] = sol.rho(t) * (1 + delta)
        rel.freeze_data()
        ham = rel['Hamiltonian']
        esc = rel['Hamiltonian_Escale']
    return {'bad': bad, 'ham': float(np.abs(ham).max()),
            'hamnorm': float(np.abs(ham / esc).max()), 'amp': amp_scale}


def main(tier):
    run = runner.Run(PID, tier, "exploration")
    tasks = [(n, ti) for n in SPECS for ti in range(4)]
    res = runner.pmap(module_case, tasks)
    worst = {}
    for t, r in zip(tasks, res):
        run.seen(t)
        run.count('checks', r['checks'])
        for k, v in r['maxres'].items():
            worst[f"{t[0]}:{k}"] = max(worst.get(f"{t[0]}:{k}", 0.0), v)
        for b in r['bad']:
            run.violation(f"C17:{t[0]}:{b[0]}",
                          f"{t[0]} at t={times_of(t[0])[t[1]]:.4g}: {b}"
                          [:500], {'module': t[0], 'time_index': t[1]})
    dres = runner.pmap(dtype_case, tasks)
    for t, r in zip(tasks, dres):
        run.seen(('dtype',) + t)
        run.count('checks', r['checks'])
        for b in r['bad']:
            run.violation(f"C17:{t[0]}:{b[0]}",
                          f"{t[0]} time index {t[1]}: {b}"[:500],
                          {'module': t[0], 'time_index': t[1], 'dtype': 1})
    lres = runner.pmap(layout_case, tasks)
    for t, r in zip(tasks, lres):
        run.seen(('layout',) + t)
        run.count('checks', r['checks'])
        for b in r['bad']:
            run.violation(f"C17:{t[0]}:{b[0]}",
                          f"{t[0]} time index {t[1]}: {b}"[:500],
                          {'module': t[0], 'time_index': t[1], 'layout': 1})
    for t, r in zip(('outside', 'inside'), runner.pmap(
            schw_expansion_case, [('outside',), ('inside',)], workers=2)):
        run.count('checks', r['checks'])
        run.seen(('schw-expansion', t))
        for b in r['bad']:
            run.violation(f"C17:Schwarzschild_isotropic:{b[0]}", str(b),
                          {'schw_expansion': t})
    ic = runner.pmap(icpert_case, [
        (1.0, 'EdS', 0.05), (0.5, 'EdS', 0.05), (1.0, 'LCDM', 0.05),
        (1.0, 'LCDM', 0.3), (1.0, 'LCDM', 0.6), (1.0, 'EdS', 0.6)],
        workers=6)
    for r in ic:
        for b in r['bad']:
            run.violation(f"C17:ICPertFLRW:{b[0]}", str(b), {'icpert': 1})
    ratio = ic[0]['ham'] / max(ic[1]['ham'], 1e-300)
    run.note(f"ICPertFLRW Hamiltonian residual: {ic[0]['ham']:.3e} at "
             f"amplitude 1, {ic[1]['ham']:.3e} at 1/2 (ratio {ratio:.2f})")
    if not 3.4 <= ratio <= 4.6:
        run.violation("C17:ICPertFLRW:second-order-residual",
                      f"Hamiltonian residual ratio {ratio:.3f} when the "
                      "amplitude is halved (expected 4: first-order "
                      "construction)", {'icpert': 1})
    run.sample({'module': 'Szekeres', 'time': 'lattice of 4 fractions of '
                't_today', 'points': '4x4x4 lattice', 'oracles':
                ['K from d_t gamma', 'G+Lambda g=kappa T',
                 'numeric==symbolic']})
    run.sample({'largest residuals': worst})
    run.assume("agreement on a lattice of 4 times x 64 positions does not "
               "prove identity of analytic functions")
    run.assume("derivatives by 8th-order central stencils of the module's "
               "own metric function (relative step 1e-2): error < 1e-9")
    return run.finish({
        'evaluations': run.counters.get('checks', 0) * 64 + 2,
        'distinct_nontrivial': len(tasks),
        'rule': "one case = (module, time) on the 4x4x4 position lattice; "
                "each evaluates K-vs-definition, Einstein residual, "
                "numeric-vs-symbolic forms and shipped scalars; all cases "
                "have non-trivial curvature or matter",
        'modules': list(SPECS) + ['ICPertFLRW'],
        'worst_residuals': worst, 'exhaustive': True,
    })


def replay(rec):
    c = rec['case']
    if 'schw_expansion' in c:
        r = schw_expansion_case((c['schw_expansion'],))
        print(r)
        return 1 if r['bad'] else 0
    if 'module' in c:
        fn = dtype_case if c.get('dtype') else (
            layout_case if c.get('layout') else module_case)
        r = fn((c['module'], c['time_index']))
        print(r)
        return 1 if r['bad'] else 0
    bad = []
    for t in [(1.0, 'EdS', 0.05), (1.0, 'LCDM', 0.3), (1.0, 'LCDM', 0.6)]:
        r = icpert_case(t)
        print(t, r)
        bad += r['bad']
    return 1 if bad else 0
