"""C10 - Weyl tensor, its electric/magnetic parts, scalars and invariants.

E2 over spacetime cells x E1 dimension cache state {Riemann cached first or
not} x vacuum flag x tetrad choice x fluid velocity; oracle R1 (Weyl =
Riemann - Ricci parts from exact jets) plus algebraic identities evaluated on
aurel's own outputs with independent einsums.
"""
import itertools

import numpy as np

from mc import runner
from refs import fields, gr
from checks import grcommon as gc

PID = "C10"


def ref_fn(r):
    c = r.curvature4()
    E, B = r.EB()
    return {'Weyl': c['Weyl'], 'Riemann': c['Riemann_down'],
            'E': E[1:, 1:], 'B': B[1:, 1:], 'gdown4': c['gdown4'],
            'gup4': c['gup4'], 'eps': r.levicivita4(),
            'scale': (np.abs(c['dGamma']).max(axis=(0, 1, 2, 3))
                      + np.abs(c['Gamma']).max(axis=(0, 1, 2)) ** 2)}


def np_scalars(C, l, k, m, mb):
    e = lambda a, b, c, d: np.einsum(          # noqa: E731
        'abcd...,a...,b...,c...,d...->...', C, a, b, c, d)
    return [e(k, m, k, m), e(k, l, k, m), e(k, m, mb, l), e(k, l, mb, l),
            e(l, mb, l, mb)]


def tilt_inputs(X, Y, Z, gamma):
    v = np.array([0.25 + 0.05 * np.sin(X), -0.15 + 0.04 * np.cos(Y + Z),
                  0.1 + 0.03 * np.sin(Z)])
    v2 = np.einsum('i...,j...,ij...->...', v, v, gamma)
    return {'velx': v[0], 'vely': v[1], 'velz': v[2],
            'w_lorentz': 1.0 / np.sqrt(1.0 - v2)}


def case(task):
    desc, p, vacuum, Ns, seed = task
    res = {'task': [list(desc), p, vacuum, list(Ns)], 'err': {},
           'refmax': {}, 'raised': None, 'flags': {}}

    def put(k, e, rmax):
        res['err'].setdefault(k, []).append(e)
        res['refmax'][k] = rmax
    gc.set_trim(desc, p)
    try:
        for N in Ns:
            states = {}
            for cached_first in (False, True):
                # the Riemann-first instance is also fed by components
                # (gxx.., kxx.., betax..): the other documented input style
                rel, st, (X, Y, Z), inp = gc.build_core(
                    desc, seed, p, N, with_T=not vacuum, vacuum=vacuum,
                    components=cached_first)
                if cached_first is False:
                    ref = gc.ref_chunks(st, fields.T0, X, Y, Z, ref_fn)
                    S = max(float(ref['scale'].max()), 1e-3)
                with gc.quiet():
                    if cached_first:
                        riem = rel['st_Riemann_down4']
                        riem_copy = riem.copy()
                    C = rel['st_Weyl_down4']
                    if cached_first:
                        # (g) a value already handed out must not change
                        res['flags']['riemann_modified'] = bool(
                            not np.array_equal(riem, riem_copy))
                        res['flags']['riemann_maxdiff'] = float(
                            np.abs(riem - riem_copy).max())
                    tag = 'from-Riemann' if cached_first else 'from-EB'
                    states[tag] = C.copy()
                    put(f'Weyl:{tag}', gc.err(C, ref['Weyl'], S),
                        float(np.abs(ref['Weyl']).max()))
                    G, Gi = ref['gdown4'], ref['gup4']
                    # (b) algebraic symmetries of the returned tensor
                    put(f'sym:ab:{tag}', gc.err(
                        C + np.einsum('abcd...->bacd...', C), 0 * C, S), S)
                    put(f'sym:cd:{tag}', gc.err(
                        C + np.einsum('abcd...->abdc...', C), 0 * C, S), S)
                    put(f'sym:pair:{tag}', gc.err(
                        C - np.einsum('abcd...->cdab...', C), 0 * C, S), S)
                    cyc = (C + np.einsum('abcd...->acdb...', C)
                           + np.einsum('abcd...->adbc...', C))
                    put(f'sym:cyclic:{tag}', gc.err(cyc, 0 * C, S), S)
                    tr = np.einsum('ac...,abcd...->bd...', Gi, C)
                    put(f'tracefree:{tag}', gc.err(tr, 0 * tr, S), S)
                    if not cached_first:
                        # (c) electric and magnetic parts
                        E, B = rel['eweyl_n_down3'], rel['bweyl_n_down3']
                        put('E_n', gc.err(E, ref['E'], S),
                            float(np.abs(ref['E']).max()))
                        put('B_n', gc.err(B, ref['B'], S),
                            float(np.abs(ref['B']).max()))
                        gu3 = np.linalg.inv(np.moveaxis(np.moveaxis(
                            inp['gammadown3'], 0, -1), 0, -1))
                        gu3 = np.moveaxis(gu3, (-2, -1), (0, 1))
                        for nm, T_ in (('E_n', E), ('B_n', B)):
                            put(f'{nm}:sym', gc.err(
                                T_ - np.einsum('ab...->ba...', T_), 0 * T_,
                                S), S)
                            t3 = np.einsum('ab...,ab...->...', gu3, T_)
                            put(f'{nm}:trace', gc.err(t3, 0 * t3, S), S)
                        # in the u-frame: contractions of returned Weyl with
                        # returned u (independent einsum, reference epsilon)
                        u = rel['uup4']
                        Eu = np.einsum('b...,d...,abcd...->ac...', u, u, C)
                        put('E_u=C.u.u', gc.err(rel['eweyl_u_down4'], Eu, S),
                            float(np.abs(Eu).max()))
                        eps_uudd = np.einsum('ac...,bd...,abef...->cdef...',
                                             Gi, Gi, ref['eps'])
                        Bu = 0.5 * np.einsum(
                            'b...,f...,abcd...,cdef...->ae...', u, u, C,
                            eps_uudd)
                        put('B_u=*C.u.u', gc.err(rel['bweyl_u_down4'], Bu,
                                                 S),
                            float(np.abs(Bu).max()))
                        # (d)+(e) tetrads and Weyl scalars
                        off_axis = (X ** 2 + Y ** 2) > 1e-12
                        for tet, tilt in (('quasi-Kinnersley', False),
                                          ('other', False),
                                          ('other', True)):
                            r2, _, _, inp2 = gc.build_core(
                                desc, seed, p, N, with_T=not vacuum,
                                vacuum=vacuum, extra_kw={'tetrad': tet},
                                inputs_extra=(tilt_inputs(
                                    X, Y, Z, inp['gammadown3'])
                                    if tilt else None))
                            # same Weyl tensor for every tetrad: the
                            # statement is about the tetrad, not the fluid
                            r2.data['st_Weyl_down4'] = C
                            r2.var_importance['st_Weyl_down4'] = 0
                            e0, e1, e2, e3 = r2.tetrad_base()
                            tetv = [e0, e1, e2, e3]
                            name = f"{tet}{'/tilted' if tilt else ''}"
                            if tet == 'quasi-Kinnersley':
                                g3 = inp['gammadown3']
                                worst = 0.0
                                for i, j in itertools.product(range(1, 4),
                                                              repeat=2):
                                    ip = np.einsum(
                                        'a...,b...,ab...->...',
                                        tetv[i][1:], tetv[j][1:], g3)
                                    worst = max(worst, float(np.abs(
                                        ip - (i == j))[off_axis].max()))
                                put(f'tetrad-orthonormal:{name}', worst, 1.0)
                                # right-handed: eps_ijk e1^i e2^j e3^k = +1
                                E3 = np.array([tetv[i][1:] for i in (1, 2, 3)])
                                mv = np.moveaxis
                                dE = np.linalg.det(mv(mv(E3, 0, -1), 0, -1))
                                dg = np.linalg.det(mv(mv(g3, 0, -1), 0, -1))
                                put(f'tetrad-orthonormal:handedness:{name}',
                                    float(np.abs(dE * np.sqrt(dg) - 1)[
                                        off_axis].max()), 1.0)
                            else:
                                eta = np.diag([-1.0, 1, 1, 1])
                                worst = 0.0
                                for i, j in itertools.product(range(4),
                                                              repeat=2):
                                    ip = np.einsum(
                                        'a...,b...,ab...->...', tetv[i],
                                        tetv[j], G)
                                    worst = max(worst, float(np.abs(
                                        ip - eta[i, j]).max()))
                                put(f'tetrad-orthonormal:{name}', worst, 1.0)
                            l_, k_, m_, mb_ = r2.null_vector_base()
                            psis = r2['Weyl_Psi']
                            mine = np_scalars(C, l_, k_, m_, mb_)
                            mask = off_axis if tet == 'quasi-Kinnersley' \
                                else np.ones_like(off_axis)
                            worst = max(float(np.abs(
                                (a - b)[mask]).max()) / S
                                for a, b in zip(psis, mine))
                            put(f'Psi=C(tetrad):{name}', worst, float(max(
                                np.abs(x[mask]).max() for x in mine)))
                            inv = r2['Weyl_invariants']
                            states[name] = (inv['I'], inv['J'], mask)
                            if tilt:
                                # electric / magnetic parts seen by a fluid
                                # moving through the slicing (u != n)
                                u2 = r2['uup4']
                                Eu2 = np.einsum('b...,d...,abcd...->ac...',
                                                u2, u2, C)
                                Bu2 = 0.5 * np.einsum(
                                    'b...,f...,abcd...,cdef...->ae...', u2,
                                    u2, C, eps_uudd)
                                W2 = float(np.abs(u2).max()) ** 2
                                put('E_u=C.u.u:moving-fluid', gc.err(
                                    r2['eweyl_u_down4'], Eu2, S * W2),
                                    float(np.abs(Eu2).max()))
                                put('B_u=*C.u.u:moving-fluid', gc.err(
                                    r2['bweyl_u_down4'], Bu2, S * W2),
                                    float(np.abs(Bu2).max()))
                            if tet == 'other' and not tilt:
                                # the options documented as 'also
                                # attribute' (tetrad, vacuum, Lambda) set
                                # after construction: same scalars
                                r3, _, _, _ = gc.build_core(
                                    desc, seed, p, N, with_T=not vacuum,
                                    vacuum=vacuum, lambda_attr=True,
                                    extra_kw={'tetrad': tet})
                                r3.data['st_Weyl_down4'] = C
                                r3.var_importance['st_Weyl_down4'] = 0
                                psis3 = r3['Weyl_Psi']
                                put('attribute-style:Weyl_Psi', max(
                                    float(np.abs(a - b).max()) / S
                                    for a, b in zip(psis, psis3)), 1.0)
                        # (f) invariants independent of the tetrad
                        if desc[0] == 'lattice' and desc[1:3] == ('L0', 'S0'):
                            # unit lapse, zero shift: the quasi-Kinnersley
                            # frame is a spacetime tetrad too
                            Iq, Jq, mq = states['quasi-Kinnersley']
                            Io, Jo, _ = states['other']
                            put('invariants:qK-vs-other:I', gc.err(
                                Iq[mq], Io[mq], S ** 2),
                                float(np.abs(np.imag(Io)).max()))
                            put('invariants:qK-vs-other:J', gc.err(
                                Jq[mq], Jo[mq], S ** 3),
                                float(np.abs(np.imag(Jo)).max()))
                        (I0, J0, _), (I1, J1, _) = states['other'], states[
                            'other/tilted']
                        put('I:rest-vs-tilted', gc.err(I0, I1, S ** 2),
                            float(np.abs(I0).max()))
                        put('J:rest-vs-tilted', gc.err(J0, J1, S ** 3),
                            float(np.abs(J0).max()))
            put('Weyl:EB-vs-Riemann', gc.err(
                states['from-EB'], states['from-Riemann'], S),
                float(np.abs(ref['Weyl']).max()))
            res['flags']['constructions_differ_bitwise'] = bool(
                not np.array_equal(states['from-EB'],
                                   states['from-Riemann']))
    except Exception:      # noqa: BLE001
        import traceback
        res['raised'] = traceback.format_exc()[-900:]
    return res


# (invariants:qK-vs-other is judged by convergence: the numerical Weyl tensor
# is trace-free only up to discretisation error, and that part is seen
# differently by different tetrads)
ROUNDOFF = ('E_u=C.u.u', 'B_u=*C.u.u', 'tetrad-orthonormal',
            'attribute-style')


def build_tasks(tier, seed):
    tasks = []
    cells = [('L0', 'S0', 'G2', 'D1'), ('L2', 'S3', 'G2', 'D1'),
             ('L1', 'S2', 'G1', 'D0')]
    if tier == 'thorough':
        cells = fields.quick_corners() + [('L1', 'S2', 'G1', 'D0'),
                                          ('L1', 'S1', 'G2', 'D1')]
    for c in cells:
        tasks.append((('lattice',) + c + (0.0,), 8, False, (16, 32), seed))
    tasks.append((('lattice', 'L2', 'S3', 'G2', 'D1', 0.3), 4, False,
                  (16, 32), seed))
    tasks.append((('mink',), 8, False, (16, 32), seed))
    tasks.append((('mink',), 8, True, (16, 32), seed))
    tasks.append((('schw',), 4, True, (16, 32), seed))
    # de Sitter: no matter (vacuum option on) but Lambda != 0; conformally
    # flat, so the Weyl tensor vanishes in both constructions
    tasks.append((('ds',), 4, True, (14, 20), seed))
    # anti-de Sitter (Lambda < 0), vacuum option on and off
    tasks.append((('ads',), 4, True, (16, 32), seed))
    tasks.append((('ads',), 4, False, (16, 32), seed))
    return tasks


def main(tier):
    run = runner.Run(PID, tier, "exploration")
    tasks = build_tasks(tier, run.seed)
    results = runner.pmap(case, tasks)
    worst = {}
    branch_flipped = 0
    for t, r in zip(tasks, results):
        desc, p, vacuum, Ns, seed = t
        tag = ':'.join(str(x) for x in desc) + f":p={p}:vac={int(vacuum)}"
        if r['raised']:
            run.violation(f"C10:raised:{desc[0]}", f"{tag}: {r['raised']}",
                          {'task': r['task']})
            continue
        if r['flags'].get('constructions_differ_bitwise'):
            branch_flipped += 1
        if r['flags'].get('riemann_modified'):
            run.violation(
                "C10:cached-Riemann-overwritten-by-Weyl",
                f"{tag}: requesting st_Weyl_down4 changed the array "
                "previously returned for st_Riemann_down4 in place (max "
                f"|delta| = {r['flags']['riemann_maxdiff']:.3g})",
                {'task': r['task']})
        for k, (e_lo, e_hi) in r['err'].items():
            nontrivial = r['refmax'][k] > 1e-6
            run.seen(desc, p, vacuum, k, nontrivial)
            run.count('comparisons')
            if nontrivial:
                run.count('nontrivial_comparisons')
            if any(k.startswith(x) for x in ROUNDOFF):
                ok = e_lo <= 1e-9 and e_hi <= 1e-9
                why = f"round-off identity: {e_lo:.2e},{e_hi:.2e}"
            else:
                cap = gc.CAPS[p] * (30 if desc[0] in ('schw', 'ads') else 1)
                ok, why = gc.converges(e_lo, e_hi, p, cap=cap)
            if ok and p == 8:
                worst[k] = max(worst.get(k, 0.0), e_hi)
            if not ok:
                run.violation(f"C10:{k}:{desc[0]}", f"{tag}: {k}: {why}",
                              {'task': r['task'], 'key': k,
                               'errors': [e_lo, e_hi]})
    if branch_flipped == 0:
        run.note("WARNING vacuous: the two Weyl constructions never "
                 "produced different arrays (cache-state branch not "
                 "flipped)")
    run.sample({'spacetime': 'lattice L2 S3 G2 D1 with T, vacuum=False',
                'cache states': ['st_Riemann_down4 not cached',
                                 'st_Riemann_down4 requested first'],
                'tetrads': ['quasi-Kinnersley', 'other (fluid at rest)',
                            'other (fluid tilted)']})
    run.sample({'largest relative error at N=32, order 8': worst})
    run.assume("NP convention: k=(e0+e1)/sqrt2, l=(e0-e1)/sqrt2, "
               "m=(e2+i e3)/sqrt2; Psi0=C(k,m,k,m) ... Psi4=C(l,mb,l,mb)")
    run.assume("quasi-Kinnersley triad judged only where x^2+y^2>0")
    return run.finish({
        'evaluations': run.counters.get('comparisons', 0),
        'distinct_nontrivial': run.counters.get('nontrivial_comparisons', 0),
        'rule': "one evaluation = (cell, fd_order, vacuum flag, oracle item "
                "incl. cache state / tetrad / tilt) at two resolutions",
        'cases': len(tasks), 'cases_where_constructions_differ':
            branch_flipped,
        'worst_rel_error_N32_order8': worst, 'exhaustive': True,
    })


def replay(rec):
    t = rec['case']['task']
    r = case((tuple(t[0]), t[1], t[2], tuple(t[3]), rec.get('seed', 0)))
    for k, e in r['err'].items():
        print(k, e)
    print(r['flags'], r['raised'])
    return 0
