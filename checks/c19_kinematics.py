"""C19 - kinematics of the default (Eulerian) observers reduce to the 3+1
identities.  E2 over the lattice with NO fluid inputs (u = n); oracle: exact
nabla_mu n_nu from jets (R1) and the quantities derived from it by their
definitions.
"""
import numpy as np

from mc import runner
from refs import fields
from checks import grcommon as gc

PID = "C19"
ALG = ('uup4', 'udown4')
FDKEYS = ('st_covd_udown4', 'accelerationdown4', 'accelerationup4',
          's_covd_udown4', 'thetadown4', 'theta', 'sheardown4', 'shear2',
          'omegadown4', 'omega2')
IDENT = ('theta+K', 'shear+A', 'shear.n', 'a-Dlnalpha', 'n.a')


def ref_fn(r):
    c = r.curvature4()
    b = r.bssn()
    nup, nd = r.normal()
    G, Gi = c['gdown4'], c['gup4']
    dn = r.covd_normal()                         # [mu, nu] = nabla_mu n_nu
    acc = np.einsum('m...,mn...->n...', nup, dn)
    hmix = np.einsum('ac...,cb...->ab...', Gi,
                     G + np.einsum('a...,b...->ab...', nd, nd))
    hdown = G + np.einsum('a...,b...->ab...', nd, nd)
    hup = Gi + np.einsum('a...,b...->ab...', nup, nup)
    scov = np.einsum('ab...,ac...->bc...', hmix, dn)
    # aurel's stated definition: h^a_b nabla_a u_c (one projection)
    th = 0.5 * (scov + np.einsum('ab...->ba...', scov))
    theta = np.einsum('ab...,ab...->...', hup, th)
    sh = th - theta * hdown / 3.0
    om = 0.5 * (scov - np.einsum('ab...->ba...', scov))
    sh2 = 0.5 * np.einsum('ai...,bj...,ab...,ij...->...', hup, hup, sh, sh)
    om2 = 0.5 * np.einsum('ai...,bj...,ab...,ij...->...', hup, hup, om, om)
    dlna = np.array([r.alpha.g[i + 1] / r.alpha.v for i in range(3)])
    out = {'uup4': nup, 'udown4': nd, 'st_covd_udown4': dn,
           'accelerationdown4': acc,
           'accelerationup4': np.einsum('ab...,b...->a...', Gi, acc),
           's_covd_udown4': scov, 'thetadown4': th, 'theta': theta,
           'sheardown4': sh, 'shear2': sh2, 'omegadown4': om, 'omega2': om2,
           '_K': b['Ktrace'], '_A': b['A'], '_dlna': dlna, '_nup': nup,
           '_scale1': np.abs(dn).max(axis=(0, 1)) + np.abs(
               c['Gamma']).max(axis=(0, 1, 2))}
    return out


def key_scale(k, rmax, s1):
    if k in ALG:
        return max(rmax, 1e-12)
    return max(rmax, s1 ** 2 if k in ('shear2', 'omega2') else s1)


def case(task):
    desc, p, Ns, seed = task[:4]
    vacuum = bool(task[4]) if len(task) > 4 else False
    # task[4] == 'lowmem': a memory threshold the kinematics chain exceeds
    extra_kw = {'memory_threshold_inGB': 2e-4} if (
        len(task) > 4 and task[4] == 'lowmem') else None
    vacuum = vacuum and extra_kw is None
    res = {'task': [list(desc), p, list(Ns), vacuum], 'err': {},
           'refmax': {}, 'raised': None}
    try:
        for N in Ns:
            rel, st, (X, Y, Z), inp = gc.build_core(desc, seed, p, N,
                                                    with_T=False,
                                                    vacuum=vacuum,
                                                    extra_kw=extra_kw)
            ref = gc.ref_chunks(st, fields.T0, X, Y, Z, ref_fn)
            s1 = max(float(ref['_scale1'].max()), 1e-3)
            with gc.quiet():
                vals = {k: np.array(rel[k], copy=True)
                        for k in ALG + FDKEYS}
            if N == Ns[0]:
                res['order'] = gc.order_dependence(
                    desc, seed, p, N, ALG + FDKEYS, vals, with_T=False,
                    vacuum=vacuum)
                res['style'] = gc.input_style_dependence(
                    desc, seed, p, N, ALG + FDKEYS, vals, with_T=False,
                    vacuum=vacuum)
            for k in ALG + FDKEYS:
                rmax = float(np.abs(ref[k]).max())
                sc = key_scale(k, rmax, s1)
                res['err'].setdefault(k, []).append(
                    gc.err(vals[k], ref[k], sc))
                res['refmax'][k] = rmax
            # the 3+1 identities of the statement, on aurel's own outputs
            ident = {
                'theta+K': (vals['theta'] + ref['_K'], s1),
                'shear+A': (vals['sheardown4'][1:, 1:] + ref['_A'], s1),
                'shear.n': (np.einsum('ab...,b...->a...',
                                      vals['sheardown4'], ref['_nup']), s1),
                'a-Dlnalpha': (vals['accelerationdown4'][1:] - ref['_dlna'],
                               s1),
                'n.a': (np.einsum('a...,a...->...', ref['_nup'],
                                  vals['accelerationdown4']), s1),
            }
            for k, (d, sc) in ident.items():
                res['err'].setdefault(k, []).append(
                    gc.err(d, np.zeros_like(d), sc))
                res['refmax'][k] = sc
        def ref_scale(N):
            rel, st, (X, Y, Z), inp = gc.build_core(
                desc, seed, p, N, with_T=False, vacuum=vacuum)
            ref = gc.ref_chunks(st, fields.T0, X, Y, Z, ref_fn)
            s1 = max(float(ref['_scale1'].max()), 1e-3)
            return {k: (ref[k], key_scale(
                k, float(np.abs(ref[k]).max()), s1)) for k in ALG + FDKEYS}
        # a variant that differs from the forward values is judged against
        # the reference like them (grcommon.alt_errors)
        gc.alt_errors(res, desc, seed, p, Ns, ALG + FDKEYS, ref_scale,
                      with_T=False, vacuum=vacuum)
    except Exception:      # noqa: BLE001
        import traceback
        res['raised'] = traceback.format_exc()[-600:]
    return res


def build_tasks(tier, seed):
    tasks = []
    if tier == 'quick':
        for c in fields.quick_corners():
            tasks.append((('lattice',) + c + (0.0,), 8, (16, 32), seed))
        tasks.append((('lattice', 'L1', 'S2', 'G1', 'D1', 0.0), 8, (16, 32),
                      seed))
        for p in (2, 4, 6):
            tasks.append((('lattice', 'L2', 'S3', 'G2', 'D1', 0.0), p,
                          (16, 32), seed))
    else:
        for c in fields.full_lattice():
            tasks.append((('lattice',) + c + (0.0,), 8, (16, 32), seed))
        for c in fields.quick_corners():
            for p in (2, 4, 6):
                tasks.append((('lattice',) + c + (0.0,), p, (16, 32), seed))
    tasks.append((('mink',), 8, (16, 32), seed))
    tasks.append((('ds',), 4, (14, 20), seed))
    # the vacuum option does not change the kinematics of the Eulerian
    # observers
    tasks.append((('lattice', 'L2', 'S3', 'G2', 'D1', 0.0), 8, (16, 32),
                  seed, True))
    tasks.append((('lattice', 'L1', 'S2', 'G1', 'D0', 0.0), 4, (16, 32),
                  seed, True))
    tasks.append((('mink',), 8, (16, 32), seed, True))
    tasks.append((('scaled', 0.02, 'L2', 'S3', 'G2', 'D1', 0.0), 8, (16, 32),
                  seed))
    # under memory pressure (the second stage of the cache clean-up runs)
    tasks.append((('lattice', 'L2', 'S3', 'G2', 'D1', 0.0), 4, (12, 24),
                  seed, 'lowmem'))
    return tasks


def main(tier):
    run = runner.Run(PID, tier, "exploration")
    tasks = build_tasks(tier, run.seed)
    results = runner.pmap(case, tasks)
    worst = {}
    for t, r in zip(tasks, results):
        desc, p, Ns, seed = t[:4]
        tag = ':'.join(str(x) for x in desc) + f":p={p}" + (
            f":{'vacuum' if t[4] is True else t[4]}"
            if len(t) > 4 and t[4] else "")
        if r['raised']:
            run.violation(f"C19:raised:{desc[0]}", f"{tag}: {r['raised']}",
                          {'task': r['task']})
            continue
        def judge_err(k, e_lo, e_hi, desc=desc, p=p):
            if k in ALG or desc[0] == 'ds':
                return (e_lo <= 1e-9 and e_hi <= 1e-9,
                        f"algebraic/exact: rel err {e_lo:.2e},{e_hi:.2e}")
            return gc.converges(e_lo, e_hi, p, cap=gc.CAPS[p])

        for kind, sig, text in (
                ('style', 'input-style',
                 "metric, curvature and shift are given by components "
                 "instead of arrays (fresh instance, reverse request "
                 "order)"),
                ('order', 'order-dependent',
                 "the keys are requested in reverse order on a fresh "
                 "instance")):
            for k, d in r.get(kind, {}).items():
                if d <= 1e-9:
                    continue
                ok, why = gc.alt_verdict(r, kind, k, judge_err)
                if ok:
                    run.count('variant_differs_but_converges')
                    continue
                run.violation(f"C19:{sig}:{k}",
                              f"{tag}: {k} differs by {d:.2e} (relative) "
                              f"when {text}, and the variant does not "
                              f"converge to the exact value either ({why})",
                              {'task': r['task'], 'key': k})
        for k, (e_lo, e_hi) in r['err'].items():
            nontrivial = r['refmax'][k] > 1e-6
            run.seen(desc, p, k, nontrivial)
            run.count('comparisons')
            if nontrivial:
                run.count('nontrivial_comparisons')
            ok, why = judge_err(k, e_lo, e_hi)
            if p == 8 and desc[0] == 'lattice' and ok:
                worst[k] = max(worst.get(k, 0.0), e_hi)
            if not ok:
                run.violation(f"C19:key={k}:{desc[0]}",
                              f"{tag}: {k}: {why}",
                              {'task': r['task'], 'key': k,
                               'errors': [e_lo, e_hi]})
    run.sample({'spacetime': 'lattice L2 S3 G2 D1 (time-dependent lapse, '
                             'shift, non-diagonal metric), no fluid inputs',
                'keys': list(ALG + FDKEYS), 'identities': list(IDENT)})
    run.sample({'largest relative error at N=32, order 8': worst})
    run.assume("default fluid state (no fluid inputs): u = n")
    return run.finish({
        'evaluations': run.counters.get('comparisons', 0),
        'distinct_nontrivial': run.counters.get('nontrivial_comparisons', 0),
        'rule': "one evaluation = (cell, fd_order, key or identity) at two "
                "resolutions; non-trivial = reference / scale not zero",
        'cases': len(tasks), 'worst_rel_error_N32_order8': worst,
        'exhaustive': True,
    })


def replay(rec):
    t = rec['case']['task']
    r = case((tuple(t[0]), t[1], tuple(t[2]), rec.get('seed', 0),
              t[3] if len(t) > 3 else False))
    for k, e in r['err'].items():
        print(k, e)
    print(r['raised'])
    return 0
