"""C09 - fluid variables yield the textbook stress-energy tensor and Eulerian
projections.  E2: pointwise, so one grid holds the product alphabet
(rho0 x eps x press x velocity menu x lapse x shift x metric menu) x input
style; oracle = closed-form perfect-fluid algebra.
"""
import contextlib
import io
import itertools

import numpy as np

from mc import runner
from checks.c08_algebra import spd_menu

PID = "C09"
KAPPA = 8 * np.pi


def quiet():
    return contextlib.redirect_stdout(io.StringIO())


def alphabet():
    rho0s = (0.0, 0.4, 2.0)
    epss = (0.0, 0.3)
    ps = (0.0, 0.1)
    dirs = [(0, 0, 0), (1, 0, 0), (0.3, -0.8, 0.5), (-0.6, 0.2, 0.7)]
    speeds = (0.3, 0.9)
    vels = [(0.0, (0, 0, 0))] + [(s, d) for s in speeds for d in dirs[1:]]
    alphas = (0.5, 1.0, 3.0)
    betas = [(0, 0, 0), (0.7, 0, 0), (-0.4, 0.3, 0.6)]
    G = [m for m in spd_menu() if np.linalg.cond(m) < 1e4][:8]
    pts = list(itertools.product(rho0s, epss, ps, range(len(vels)), alphas,
                                 range(len(betas)), range(len(G))))
    return pts, vels, betas, G


def build(style):
    from aurel.core import AurelCore
    from aurel.finitedifference import FiniteDifference
    pts, vels, betas, G = alphabet()
    n = len(pts)
    shape = (n, 1, 1)
    col = lambda f: np.array([f(p) for p in pts]).reshape(shape)  # noqa
    rho0, eps, press = col(lambda p: p[0]), col(lambda p: p[1]), \
        col(lambda p: p[2])
    alpha = col(lambda p: p[4])
    beta = np.array([[betas[p[5]][i] for p in pts] for i in range(3)]
                    ).reshape((3,) + shape)
    g = np.moveaxis(np.array([G[p[6]] for p in pts]), 0, -1).reshape(
        (3, 3) + shape)
    # velocity of given gamma-norm along a direction
    v = np.zeros((3,) + shape)
    for k, p in enumerate(pts):
        s, d = vels[p[3]]
        d = np.array(d, float)
        if s > 0:
            nrm = np.sqrt(d @ G[p[6]] @ d)
            v[:, k, 0, 0] = s * d / nrm
    v2 = np.einsum('i...,j...,ij...->...', v, v, g)
    W = 1.0 / np.sqrt(1.0 - v2)
    rho = rho0 * (1 + eps)
    param = {'Nx': n, 'Ny': 1, 'Nz': 1, 'xmin': 0.5, 'ymin': -0.2,
             'zmin': 0.3, 'dx': 1.0, 'dy': 1.0, 'dz': 1.0}
    with quiet():
        fd = FiniteDifference(param, boundary='periodic', fd_order=2,
                              verbose=False)
        rel = AurelCore(fd, verbose=False, Lambda=LAMBDA,
                        clear_cache_every_nbr_calc=10 ** 9)
    base = {'alpha': alpha, 'betaup3': beta, 'gammadown3': g}
    fluid = {'press': press, 'w_lorentz': W, 'velx': v[0], 'vely': v[1],
             'velz': v[2]}
    if style == 'fluid':
        inp = dict(base, rho0=rho0, eps=eps, **fluid)
    elif style == 'fluid-velup3':
        # the Eulerian velocity as one array (the key the ET reader and
        # over_time produce) instead of velx, vely, velz
        fl = {k: x for k, x in fluid.items() if not k.startswith('vel')}
        inp = dict(base, rho0=rho0, eps=eps, velup3=v.copy(), **fl)
    elif style == 'rho':
        inp = dict(base, rho=rho, eps=eps, **fluid)
    elif style == 'rho+rho0':
        inp = dict(base, rho=rho, rho0=rho0, **fluid)
    else:
        inp = None
    ref = dict(rho0=rho0, eps=eps, press=press, alpha=alpha, beta=beta,
               g=g, v=v, W=W, rho=rho, pts=pts, shape=shape, fd=fd)
    return rel, inp, ref


def closed_forms(ref):
    g, v, W, a, b = ref['g'], ref['v'], ref['W'], ref['alpha'], ref['beta']
    rho, p, rho0, eps = ref['rho'], ref['press'], ref['rho0'], ref['eps']
    mv = np.moveaxis
    gu = mv(np.linalg.inv(mv(mv(g, 0, -1), 0, -1)), (-2, -1), (0, 1))
    vd = np.einsum('ij...,j...->i...', g, v)
    bd = np.einsum('ij...,j...->i...', g, b)
    g4 = np.zeros((4, 4) + ref['shape'])
    g4[0, 0] = -a ** 2 + np.einsum('i...,i...->...', b, bd)
    g4[0, 1:] = bd
    g4[1:, 0] = bd
    g4[1:, 1:] = g
    uup = np.concatenate([(W / a)[None], W * (v - b / a)], axis=0)
    ud = np.einsum('ab...,b...->a...', g4, uup)
    h4 = g4 + np.einsum('a...,b...->ab...', ud, ud)
    T = rho * np.einsum('a...,b...->ab...', ud, ud) + p * h4
    with np.errstate(all='ignore'):
        enth = 1 + eps + np.where(rho0 != 0, p / np.where(rho0 != 0, rho0,
                                                          1), 0.0)
    rhoh = rho + p            # rho0 h = rho0 (1+eps) + p
    E = rhoh * W ** 2 - p
    Sd = rhoh * W ** 2 * vd
    Sij = rhoh * W ** 2 * np.einsum('i...,j...->ij...', vd, vd) + p * g
    S = np.einsum('ij...,ij...->...', gu, Sij)
    sg = np.sqrt(np.linalg.det(mv(mv(g, 0, -1), 0, -1)))
    D = rho0 * W * sg
    return dict(gu=gu, vd=vd, g4=g4, uup=uup, ud=ud, h4=h4, T=T, E=E, Sd=Sd,
                Su=np.einsum('ij...,j...->i...', gu, Sd), Sij=Sij, S=S,
                D=D, enth=enth, sg=sg)


def eulerian_case(_):
    """Eulerian projections supplied directly (rho_n, press_n in the data, as
    in the example notebook): the trace of T offered from them is
    3 press_n - rho_n, whatever was requested before."""
    from aurel.core import AurelCore
    rel, _inp, ref = build('fluid')
    cf = closed_forms(ref)
    E, P = np.array(cf['E'], copy=True), np.array(cf['S'] / 3, copy=True)
    base = {'alpha': ref['alpha'], 'betaup3': ref['beta'],
            'gammadown3': ref['g']}
    bad = []
    for first in (None, 'gammadet', 'Stresstrace_n', 'st_Ricci_down3',
                  'rho'):
        try:
            with quiet():
                r2 = AurelCore(ref['fd'], verbose=False, Lambda=LAMBDA,
                               clear_cache_every_nbr_calc=10 ** 9)
                r2.data.update(base)
                r2.data['rho_n'], r2.data['press_n'] = E, P
                r2.freeze_data()
                if first:
                    r2[first]
                got = np.asarray(r2['Ttrace'])
                got2 = np.asarray(r2.Ttrace()) if 'Tdown4' not in r2.data \
                    else got
        except Exception as ex:      # noqa: BLE001
            bad.append(('eulerian-inputs:Ttrace:raised', str(first),
                        repr(ex)[:100]))
            continue
        want = 3 * P - E
        sc = 1e-12 * (1 + np.abs(E) + 3 * np.abs(P))
        if 'Tdown4' in r2.data and first is not None:
            continue     # T was built by the earlier request: other branch
        if np.any(np.abs(got - want) > sc) or np.any(
                np.abs(got2 - want) > sc):
            bad.append(('eulerian-inputs:Ttrace', str(first),
                        float(np.abs(got - want).max())))
    return bad


def run_style(style):
    try:
        return _run_style(style)
    except Exception:      # noqa: BLE001 - an exception inside aurel
        import traceback
        return {'style': style, 'checks': 1, 'points': 1,
                'bad': [('raised', traceback.format_exc()[-400:])]}


def _run_style(style):
    rel, inp, ref = build(style)
    cf = closed_forms(ref)
    if style == 'Tdown4':
        inp = {'alpha': ref['alpha'], 'betaup3': ref['beta'],
               'gammadown3': ref['g'], 'Tdown4': cf['T'].copy()}
    rel.data.update(inp)
    rel.freeze_data()
    bad = []
    n = [0]
    cond = np.array([np.linalg.cond(spd) for spd in
                     np.moveaxis(ref['g'][:, :, :, 0, 0], -1, 0)]
                    ).reshape(ref['shape'])
    Wmax = ref['W'] ** 2

    def chk(name, lhs, rhs, extra=1.0):
        n[0] += 1
        lhs, rhs = np.asarray(lhs, float), np.asarray(rhs, float)
        tol = 1e-12 * cond * Wmax * extra * 100
        if lhs.shape != np.broadcast_shapes(lhs.shape, np.shape(rhs)):
            bad.append((name, 'shape', list(lhs.shape)))
            return
        d = np.abs(lhs - rhs)
        sc = 1 + np.abs(rhs)
        if not np.all(np.isfinite(lhs)) or np.any(d > tol * sc):
            k = np.unravel_index(np.argmax(np.where(
                np.isfinite(d), d / (tol * sc), np.inf)), d.shape)
            pt = ref['pts'][k[-3]]
            bad.append((name, 'value', float(lhs[k]), float(
                np.broadcast_to(rhs, lhs.shape)[k]),
                dict(rho0=pt[0], eps=pt[1], press=pt[2], vel=pt[3],
                     alpha=pt[4], beta=pt[5], gamma=pt[6])))
    with quiet():
        g4, gu = cf['g4'], cf['gu']
        if style != 'Tdown4':
            uu, ud = rel['uup4'], rel['udown4']
            chk('uup4', uu, cf['uup'])
            chk('udown4=g.uup4', ud, cf['ud'])
            chk('u^mu u_mu=-1', np.einsum('a...,a...->...', uu, ud), -1.0)
            gi4 = np.moveaxis(np.linalg.inv(np.moveaxis(np.moveaxis(
                g4, 0, -1), 0, -1)), (-2, -1), (0, 1))
            chk('g^mn u_m u_n=-1', np.einsum('ab...,a...,b...->...', gi4,
                                             ud, ud), -1.0, extra=1e3)
            chk('h_mn u^n=0', np.einsum('ab...,b...->a...', rel['hdown4'],
                                        uu), 0.0, extra=10)
            chk('hdown4', rel['hdown4'], cf['h4'])
            chk('hmixed4.u=0', np.einsum('ab...,b...->a...', rel['hmixed4'],
                                         uu), 0.0, extra=1e3)
            chk('hup4 lowered=hdown4', np.einsum(
                'ac...,bd...,ab...->cd...', g4, g4, rel['hup4']), cf['h4'],
                extra=1e3)
            chk('veldown3', rel['veldown3'], cf['vd'])
            chk('udown3', rel['udown3'], cf['ud'][1:])
            chk('rho', rel['rho'], ref['rho'])
            chk('rho0', rel['rho0'], ref['rho0'])
            chk('eps', rel['eps'], np.where(ref['rho0'] != 0, ref['eps'],
                                            rel['eps']))
            chk('enthalpy', rel['enthalpy'], np.where(
                ref['rho0'] != 0, cf['enth'], rel['enthalpy']))
            chk('conserved_D', rel['conserved_D'], cf['D'])
            chk('conserved_E', rel['conserved_E'], cf['D'] * ref['eps'])
            # S_mu = sqrt(gamma) W (rho + p) u_mu, also where rho0 = 0
            Sd4 = cf['sg'] * ref['W'] * (ref['rho'] + ref['press']) \
                * cf['ud']
            chk('conserved_Sdown4', rel['conserved_Sdown4'], Sd4)
            chk('conserved_Sdown3', rel['conserved_Sdown3'],
                rel['conserved_Sdown4'][1:])
            chk('conserved_Sup4=g^-1 Sdown4', np.einsum(
                'ab...,b...->a...', g4, rel['conserved_Sup4']),
                rel['conserved_Sdown4'], extra=1e3)
            chk('conserved_Sup3', rel['conserved_Sup3'],
                rel['conserved_Sup4'][1:])
        if style != 'Tdown4':
            chk('uup0=W/alpha', rel['uup0'], ref['W'] / ref['alpha'])
            chk('uup3', rel['uup3'], cf['uup'][1:])
            chk('velup3', rel['velup3'], ref['v'])
            chk('velup4', rel['velup4'], np.concatenate(
                [0 * ref['alpha'][None], ref['v']], axis=0))
            chk('veldown4 spatial', rel['veldown4'][1:], cf['vd'])
            chk('veldown4 time=beta.v', rel['veldown4'][0], np.einsum(
                'i...,i...->...', ref['beta'], cf['vd']))
            hd = np.linalg.det(np.moveaxis(np.moveaxis(
                cf['h4'][1:, 1:], 0, -1), 0, -1))
            chk('hdet', rel['hdet'], hd, extra=10)
        chk('dttau=sqrt|alpha^2-beta.beta|', rel['dttau'], np.sqrt(np.abs(
            -cf['g4'][0, 0])), extra=10)
        T = rel['Tdown4']
        chk('Tdown4=rho u_m u_n+p h_mn (indices down)', T, cf['T'])
        chk('rho_n=E', rel['rho_n'], cf['E'], extra=10)
        chk('fluxdown3_n=S_i', rel['fluxdown3_n'], cf['Sd'], extra=10)
        chk('fluxup3_n=S^i', rel['fluxup3_n'], cf['Su'], extra=10)
        chk('Stressdown3_n=S_ij', rel['Stressdown3_n'], cf['Sij'], extra=10)
        chk('Stressup3_n', rel['Stressup3_n'], np.einsum(
            'ia...,jb...,ij...->ab...', gu, gu, cf['Sij']), extra=10)
        chk('Stresstrace_n=S', rel['Stresstrace_n'], cf['S'], extra=10)
        chk('press_n=S/3', rel['press_n'], cf['S'] / 3, extra=10)
        chk('anisotropic_press trace-free', np.einsum(
            'ij...,ij...->...', gu, rel['anisotropic_press_down3_n']), 0.0,
            extra=10)
        chk('anisotropic_press', rel['anisotropic_press_down3_n'],
            cf['Sij'] - ref['g'] * cf['S'] / 3, extra=10)
        ttr = -ref['rho'] + 3 * ref['press']
        chk('Ttrace=-rho+3p (direct call)', rel.Ttrace(), ttr, extra=1e3)
        # the other branch of Ttrace
        has_T = 'Tdown4' in rel.data
        if has_T and style != 'Tdown4':
            Tsave = rel.data.pop('Tdown4')
            chk('Ttrace (projection branch)', rel.Ttrace(), ttr, extra=1e3)
            rel.data['Tdown4'] = Tsave
        chk('Tup4 lowered=Tdown4', np.einsum(
            'ac...,bd...,ab...->cd...', g4, g4, rel['Tup4']), cf['T'],
            extra=1e3)
        # angular momentum = eps_ijk x^j S^k
        fd = ref['fd']
        eps3 = np.zeros((3, 3, 3) + ref['shape'])
        for p_ in itertools.permutations(range(3)):
            eps3[p_] = np.linalg.det(np.eye(3)[list(p_)]) * cf['sg']
        L = np.einsum('ijk...,j...,k...->i...', eps3,
                      np.array([fd.x, fd.y, fd.z]), cf['Su'])
        chk('angmomdown3_n', rel['angmomdown3_n'], L, extra=1e3)
        chk('angmomup3_n', rel['angmomup3_n'], np.einsum(
            'ij...,j...->i...', gu, L), extra=1e4)
        # spatial Ricci from T: both derivations agree
        R3a = rel.st_Ricci_down3()                  # from T directly
        R4 = rel['st_Ricci_down4']
        R3b = rel.st_Ricci_down3()                  # slice of st_Ricci_down4
        want4 = LAMBDA * g4 + KAPPA * (cf['T'] - 0.5 * ttr * g4)
        chk('st_Ricci_down4=kappa(T-Tg/2)', R4, want4, extra=1e3)
        chk('st_Ricci_down3 (from T)', R3a, want4[1:, 1:], extra=1e3)
        chk('st_Ricci_down3 (from st_Ricci_down4)', R3b, want4[1:, 1:],
            extra=1e3)
    # every quantity also from a FRESH instance holding only the inputs (no
    # other request before it): alternative derivations must agree
    from aurel.core import AurelCore
    keys2 = [k for k in FRESH_KEYS
             if not (style == 'Tdown4' and k in FLUID_ONLY)]
    fresh = {}
    for key in keys2:
        with quiet():
            r2 = AurelCore(ref['fd'], verbose=False, Lambda=LAMBDA,
                           clear_cache_every_nbr_calc=10 ** 9)
            r2.data.update(inp)
            r2.freeze_data()
            v_fresh = r2[key]
            v_main = rel[key]
        fresh[key] = np.array(v_fresh, copy=True)
        chk(f'fresh-instance:{key}', v_fresh, v_main, extra=1e3)
    # all histories of length 2: X requested right after Y on a fresh
    # instance equals X requested first (a shortcut through whatever Y left
    # in the cache must give the same quantity)
    for ky in keys2:
        for kx in keys2:
            if kx == ky:
                continue
            with quiet():
                r2 = AurelCore(ref['fd'], verbose=False, Lambda=LAMBDA,
                               clear_cache_every_nbr_calc=10 ** 9)
                r2.data.update(inp)
                r2.freeze_data()
                r2[ky]
                v = r2[kx]
            chk(f'after-{ky}:{kx}', v, fresh[kx], extra=1e3)
    return {'style': style, 'bad': bad, 'checks': n[0],
            'points': len(ref['pts'])}


# a non-zero cosmological constant throughout: it only enters the Ricci
# tensor derived from T, R_mn = Lambda g_mn + kappa (T_mn - T g_mn / 2)
LAMBDA = 0.35
STYLES = ('fluid', 'fluid-velup3', 'rho', 'rho+rho0', 'Tdown4')
FLUID_ONLY = ('rho', 'rho0', 'eps', 'enthalpy', 'uup4', 'udown4', 'hdown4',
              'hmixed4', 'hup4', 'conserved_D', 'conserved_E',
              'conserved_Sdown4', 'conserved_Sdown3', 'conserved_Sup4',
              'conserved_Sup3', 'veldown3', 'udown3')
FRESH_KEYS = FLUID_ONLY + (
    'Tdown4', 'Tup4', 'Ttrace', 'rho_n', 'fluxup3_n', 'fluxdown3_n',
    'Stressup3_n', 'Stressdown3_n', 'Stresstrace_n', 'press_n',
    'anisotropic_press_down3_n', 'angmomdown3_n', 'angmomup3_n',
    'st_Ricci_down3')
# (a fresh st_Ricci_down4 without Tdown4 among the inputs is the Riemann
# contraction, i.e. finite differences - not pointwise algebra)


def main(tier):
    run = runner.Run(PID, tier, "exploration")
    res = runner.pmap(run_style, STYLES, workers=4)
    total = 0
    for b in runner.pmap(eulerian_case, [0], workers=1)[0]:
        run.violation(f"C09:{b[0]}:after-{b[1]}", f"{b}"[:300],
                      {'eulerian': b[1]})
    for r in res:
        total += r['checks'] * r['points']
        run.seen(r['style'])
        for b in r['bad']:
            run.violation(f"C09:{b[0]}:{r['style']}",
                          f"input style {r['style']}: {b}"[:400],
                          {'style': r['style'], 'identity': b[0]})
    pts = alphabet()[0]
    run.sample({'alphabet point': {'rho0': 2.0, 'eps': 0.3, 'press': 0.1,
                                   '|v|': 0.9, 'alpha': 0.5,
                                   'beta': [-0.4, 0.3, 0.6],
                                   'gamma': 'non-diagonal SPD'},
                'closed forms': ['E=rho h W^2-p', 'S_i=rho h W^2 v_i',
                                 'T_mn=rho u_m u_n+p h_mn', '...']})
    run.assume("W = (1 - v_i v^i)^(-1/2) supplied consistently with the "
               "velocity; eps/enthalpy judged only where rho0 != 0")
    return run.finish({
        'evaluations': total,
        'distinct_nontrivial': len(pts) * len(STYLES),
        'rule': "one case per (alphabet point, input style, closed form); "
                "distinct non-trivial = alphabet points x styles (every "
                "point has alpha != 1 or beta != 0 or v != 0 or p != 0 in "
                "some combination; all are compared with non-zero closed "
                "forms)",
        'alphabet_points': len(pts), 'styles': list(STYLES),
        'exhaustive': True,
    })


def replay(rec):
    r = run_style(rec['case']['style'])
    for b in r['bad'][:10]:
        print(b)
    return 1 if r['bad'] else 0
