"""C18 - simulation catalogues and name parsing are faithful and stable.

E1: sequences of iterations()/read_iterations()/get_content() calls and
"a further restart appears" events on generated directories (R3), checked
against generator ground truth, file <-> memory round trip, and a fresh scan.
E2: exhaustive name grammar for parse_hdf5_key / parse_h5file / .par values.
"""
import contextlib
import io
import itertools
import json
import os
import shutil

import numpy as np

from mc import explorer, runner, seams
from refs import etgen

PID = "C18"
NAMES = ['sim', 'my_restart_sim', 'sim-v1.2', 'a->b', 'rl = 1 run',
         '3D variables available', 'Checkpoints available at its']
VARS = ['alp', 'betax', 'betay', 'betaz', 'rho', 'gxx', 'gxy', 'gxz', 'gyy',
        'gyz', 'gzz']
SHAPES = {0: (4, 3, 5), 1: (3, 4, 3), 2: (3, 4, 3)}


def has_fields(got, want):
    """The parse result is a mapping that holds every documented field with
    the right value (further fields are the library's business: the property
    asks that parsing inverts the naming scheme, not for a closed record)."""
    return isinstance(got, dict) and all(
        k in got and got[k] == v for k, v in want.items())


def rng0(a, b, s):
    return list(range(a, b + 1, s))


PATTERNS = {
    'one': [dict(its0=rng0(0, 4, 2), its1=rng0(0, 4, 1), chk=[0, 4])],
    'two': [dict(its0=rng0(0, 4, 2), its1=rng0(0, 4, 1), chk=[4]),
            dict(its0=rng0(4, 8, 2), its1=rng0(4, 8, 1), chk=[8])],
    'three': [dict(its0=rng0(0, 4, 2), its1=rng0(0, 4, 1), chk=[]),
              dict(its0=rng0(4, 8, 2), its1=rng0(4, 8, 1), chk=[4, 8]),
              dict(its0=rng0(8, 10, 2), its1=rng0(8, 10, 1), chk=[])],
    'single_inside': [dict(its0=rng0(0, 4, 2), its1=rng0(0, 4, 1), chk=[2]),
                      dict(its0=[2], its1=[2], chk=[]),
                      dict(its0=rng0(2, 6, 2), its1=rng0(2, 6, 1), chk=[])],
    'empty_mid': [dict(its0=rng0(0, 4, 2), its1=rng0(0, 4, 1), chk=[4]),
                  dict(empty=True, chk=[4]),
                  dict(its0=rng0(4, 8, 2), its1=rng0(4, 8, 1), chk=[])],
    'singles': [dict(its0=[0], its1=[0], chk=[0]),
                dict(its0=[2], its1=[2], chk=[]),
                dict(its0=rng0(4, 8, 2), its1=rng0(4, 8, 1), chk=[8])],
    'four': [dict(its0=rng0(0, 2, 2), its1=rng0(0, 2, 1), chk=[2]),
             dict(its0=rng0(2, 4, 2), its1=rng0(2, 4, 1), chk=[4],
                  chkfiles=2),
             dict(its0=rng0(4, 6, 2), its1=rng0(4, 6, 1), chk=[]),
             dict(its0=rng0(6, 8, 2), its1=rng0(6, 8, 1), chk=[8])],
}
PATTERNS['level_ranges'] = [
    dict(its0=rng0(0, 4, 2), its1=rng0(0, 5, 1), chk=[4]),
    dict(its0=rng0(6, 10, 2), its1=rng0(5, 9, 1), chk=[]),
    dict(its0=rng0(12, 16, 4), its1=rng0(10, 17, 1), chk=[16])]
PATTERNS['changing_group'] = [
    dict(its0=rng0(0, 4, 2), its1=rng0(0, 4, 1), chk=[4],
         extra=['phi', 'Pi']),
    dict(its0=rng0(4, 8, 2), its1=rng0(4, 8, 1), chk=[8],
         extra=['phi', 'chi']),
    dict(its0=rng0(8, 12, 2), its1=rng0(8, 12, 1), chk=[],
         extra=['chi'])]
PATTERNS['bracket_names'] = [
    dict(its0=rng0(0, 4, 2), its1=rng0(0, 4, 1), chk=[4],
         extra=['Bvec[0]', 'Bvec[1]', 'Bvec[2]']),
    dict(its0=rng0(4, 8, 2), its1=rng0(4, 8, 1), chk=[8],
         extra=['Bvec[1]']),
    dict(its0=rng0(8, 12, 2), its1=rng0(8, 12, 1), chk=[],
         extra=['Bvec[0]', 'Bvec[2]', 'phi'])]
# a restart that died before its first output: no data, no checkpoint
PATTERNS['dead_restart'] = [
    dict(its0=rng0(0, 4, 2), its1=rng0(0, 4, 1), chk=[4]),
    dict(empty=True, chk=[]),
    dict(its0=rng0(4, 8, 2), its1=rng0(4, 8, 1), chk=[])]
# a short re-run from an earlier checkpoint, and a gap between restarts
PATTERNS['shorter_rerun'] = [
    dict(its0=rng0(0, 12, 2), its1=rng0(0, 12, 1), chk=[4, 12]),
    dict(its0=rng0(4, 8, 2), its1=rng0(4, 8, 1), chk=[8])]
PATTERNS['gap'] = [
    dict(its0=rng0(0, 4, 2), its1=rng0(0, 4, 1), chk=[4]),
    dict(its0=rng0(12, 16, 2), its1=rng0(12, 16, 1), chk=[16])]
PATTERNS['contained_names'] = [
    dict(its0=rng0(0, 8, 2), its1=rng0(0, 8, 1), chk=[8],
         extra=['K', 'Kxx', 'Kxy'], only=True),
    dict(its0=rng0(8, 12, 2), its1=rng0(8, 12, 1), chk=[],
         extra=['K', 'Kxx', 'Kxy'], only=True)]
_PRISTINE = {}
_CFG = None


def quiet():
    return contextlib.redirect_stdout(io.StringIO())


def make_spec(name, pattern, layout, levels):
    grouped, proc = layout
    bx = {0: etgen.tensor_boxes(SHAPES[0], (2, 1, 2)),
          1: etgen.tensor_boxes(SHAPES[1], (1, 2, 1)),
          2: etgen.tensor_boxes(SHAPES[2], (1, 2, 1))}
    restarts = []
    for p in PATTERNS[pattern.split('+')[0]]:
        if p.get('empty'):
            restarts.append({'empty': True, 'its': {}, 'boxes': bx,
                             'checkpoints': p['chk']})
            # an empty restart still holds its checkpoints
            continue
        its = {0: p['its0']}
        if levels == 2:
            its[1] = p['its1']
        elif levels == 3:
            # a hole in the level numbering (per-variable option
            # refinement_levels={0 2} of CarpetIOHDF5)
            its[2] = p['its1']
        restarts.append({'its': its, 'boxes': bx, 'checkpoints': p['chk'],
                         'checkpoint_files': p.get('chkfiles', 1),
                         'variables': (p['extra'] if p.get('only') else
                                       VARS + p.get('extra', [])),
                         'extra': p.get('extra', []),
                         'only': p.get('only', False)})
    spec = {'simname': name, 'grouped': grouped, 'proc': proc, 'ghost': 1,
            'variables': VARS, 'shapes': SHAPES, 'restarts': restarts}
    if '+tl' in pattern:
        spec['timelevels'] = 2    # IOHDF5::output_all_timelevels
    return spec


def build_pristine(cfg, root):
    name, pattern, layout, levels = cfg
    spec = make_spec(name, pattern, layout, levels)
    etgen.write_sim(root, spec)
    # checkpoints of empty restarts
    for r, rs in enumerate(spec['restarts']):
        if rs.get('empty'):
            d = os.path.join(root, name, f'output-{r:04d}', name)
            import h5py
            for it in rs['checkpoints']:
                with h5py.File(os.path.join(
                        d, f'checkpoint.chkpt.it_{it}.h5'), 'w') as f:
                    f.create_group('Parameters and Global Attributes')
    return root


EXPECT_GROUPS = {'alpha', 'betaup3', 'rho0', 'gammadown3'}


def norm(x):
    if isinstance(x, dict):
        return {k: norm(v) for k, v in x.items()}
    if isinstance(x, (list, tuple, np.ndarray)):
        return [norm(v) for v in x]
    if isinstance(x, np.integer):
        return int(x)
    return x


def truth_restart(spec, r):
    rs = spec['restarts'][r]
    out = {}
    if not rs.get('empty'):
        out['var available'] = (set() if rs.get('only') else
                                set(EXPECT_GROUPS)) | set(rs.get('extra', []))
        allits = sorted(set(i for its in rs['its'].values() for i in its))
        out['its available'] = [allits[0], allits[-1]]
        for rl, its in rs['its'].items():
            out[f'rl = {rl}'] = ([its[0], its[-1], its[1] - its[0]]
                                 if len(its) > 1 else [its[0]])
    elif rs['checkpoints']:
        ck = sorted(rs['checkpoints'])
        out['its available'] = [ck[0], ck[-1]]
    out['checkpoints'] = sorted(set(rs.get('checkpoints', [])))
    return out


def same_entry(got, want):
    g = norm(got)
    g = dict(g)
    if 'var available' in g:
        g['var available'] = set(g['var available'])
    g.pop('it to do', None)
    return g == want


class System:
    def __init__(self, cfg):
        self.cfg = cfg
        name, pattern, layout, levels = cfg
        self.spec = make_spec(name, pattern, layout, levels)
        self.name = name
        self.dir = runner.scratch_root()
        self.visible = 0
        self.catalogued = set()
        self.last = None
        self.reveal()
        self.param = etgen.make_param(self.dir, name)

    def close(self):
        shutil.rmtree(self.dir, ignore_errors=True)

    def reveal(self):
        n = len(self.spec['restarts'])
        if self.visible >= n:
            return False
        r = self.visible
        src = os.path.join(_PRISTINE[self.cfg], self.name,
                           f'output-{r:04d}')
        dst = os.path.join(self.dir, self.name, f'output-{r:04d}')
        shutil.copytree(src, dst)
        self.visible += 1
        if '+noise' in self.cfg[1]:
            # what simfactory leaves next to the restarts: a symlink to the
            # running restart, plus unrelated entries whose names begin
            # like a restart directory
            sd = self.simdir()
            for fn in os.listdir(sd):
                if fn.endswith('-active'):
                    os.remove(os.path.join(sd, fn))
            os.symlink(f'output-{r:04d}', os.path.join(
                sd, f'output-{r:04d}-active'))
            if r == 0:
                os.makedirs(os.path.join(sd, 'SIMFACTORY'), exist_ok=True)
                os.makedirs(os.path.join(sd, 'output-backup'), exist_ok=True)
                open(os.path.join(sd, 'output-0000.tar'), 'w').close()
        return True

    def simdir(self):
        return os.path.join(self.dir, self.name)

    def files_state(self):
        out = []
        p = os.path.join(self.simdir(), 'iterations.txt')
        if os.path.exists(p):
            out.append(('iterations.txt',
                        open(p).read().replace(self.dir, '<ROOT>')))
        for r in range(self.visible):
            c = os.path.join(self.simdir(), f'output-{r:04d}', self.name,
                             'content.txt')
            if os.path.exists(c):
                out.append((f'content-{r}',
                            open(c).read().replace(self.dir, '<ROOT>')))
        return tuple(out)

    def canon(self):
        return (self.visible, self.files_state())

    def outcome(self):
        return self.last

    # ---- truth helpers ---------------------------------------------------
    def truth_content(self, r):
        """{tuple(sorted vars): set(files)} for restart r."""
        d = os.path.join(self.simdir(), f'output-{r:04d}', self.name)
        byvar = {}
        for v in self.spec['restarts'][r].get('variables', VARS):
            thorn, gbase = etgen.VARTABLE[v]
            base = gbase if self.spec['grouped'] else v
            fs = set()
            for fn in os.listdir(d):
                if fn.endswith('.h5') and not fn.startswith('checkpoint') \
                        and (fn == base + '.h5'
                             or fn.startswith(base + '.file_')):
                    fs.add(os.path.join(d, fn))
            if fs:
                byvar[v] = frozenset(fs)
        groups = {}
        for v, fs in byvar.items():
            groups.setdefault(fs, []).append(v)
        return {tuple(sorted(vs)): set(fs) for fs, vs in groups.items()}

    # ---- transitions -------------------------------------------------------
    def apply(self, op, checked=True):
        from aurel import reading
        viol = []
        kind = op[0]
        before = self.files_state()
        sig_name = ('plain' if self.name in ('sim', 'sim-v1.2')
                    else 'special-name')
        try:
            if kind == 'appear':
                ok = self.reveal()
                self.last = ('appear', ok)
                return viol
            with quiet(), seams.file_order(op[-1] if kind == 'iterations'
                                           else 'sorted'):
                if kind == 'iterations':
                    skip_last = op[1]
                    todo = list(range(self.visible))
                    if skip_last:
                        todo = todo[:-1]
                    newly = [r for r in todo if r not in self.catalogued]
                    if not newly and not self.catalogued:
                        # documented: nothing to process -> ImportError
                        try:
                            reading.iterations(dict(self.param),
                                               skip_last=skip_last,
                                               verbose=False)
                            viol.append(("C18:iterations:nothing-to-process"
                                         "-not-reported", str(op)))
                        except ImportError:
                            pass
                        self.last = ('iterations', 'nothing')
                        return viol
                    res = reading.iterations(dict(self.param),
                                             skip_last=skip_last,
                                             verbose=False)
                    self.catalogued |= set(newly)
                    self.last = ('iterations', len(newly))
                    if checked:
                        viol += self.check_iterations(res, sig_name)
                        if not newly and self.files_state() != before:
                            viol.append((
                                f"C18:iterations:repeat-changes-file:"
                                f"{sig_name}",
                                f"{op} with nothing new changed "
                                "iterations.txt"))
                elif kind == 'read_iterations':
                    if not self.catalogued:
                        self.last = ('read_iterations', 'skipped')
                        return viol
                    res = reading.read_iterations(dict(self.param),
                                                  verbose=False)
                    self.last = ('read_iterations', len(res))
                    if checked:
                        viol += self.check_iterations(res, sig_name,
                                                      from_file=True)
                        if self.files_state() != before:
                            viol.append(("C18:read_iterations:changes-file",
                                         str(op)))
                elif kind == 'get_content':
                    r, overwrite = op[1], op[2]
                    if r >= self.visible or \
                            self.spec['restarts'][r].get('empty'):
                        self.last = ('get_content', 'skipped')
                        return viol
                    res = reading.get_content(dict(self.param), restart=r,
                                              overwrite=overwrite,
                                              verbose=False)
                    self.last = ('get_content', r, overwrite)
                    if checked:
                        want = self.truth_content(r)
                        got = {tuple(k): set(v) for k, v in res.items()}
                        if got != want:
                            viol.append((
                                f"C18:get_content:wrong:{sig_name}",
                                f"{op}: got keys {sorted(got)[:4]} "
                                f"expected {sorted(want)[:4]}"[:300]))
                        if any(tuple(sorted(k)) != tuple(k) for k in res):
                            viol.append(("C18:get_content:unsorted-key",
                                         str(op)))
                        # JSON round trip: reload gives the same
                        res2 = reading.get_content(
                            dict(self.param), restart=r, overwrite=False,
                            verbose=False)
                        if {tuple(k): set(v) for k, v in res2.items()} \
                                != got:
                            viol.append((
                                f"C18:get_content:json-differs:{sig_name}",
                                str(op)))
        except Exception as ex:     # noqa: BLE001
            self.last = (kind, 'raised')
            viol.append((f"C18:{kind}:raised:{sig_name}:"
                         f"{type(ex).__name__}",
                         f"{op} on simname={self.name!r}: {ex!r}"[:300]))
        return viol

    def check_iterations(self, res, sig_name, from_file=False):
        viol = []
        res = dict(res)
        overall = res.pop('overall', None)
        keys = set(res.keys())
        if keys != self.catalogued:
            viol.append((f"C18:iterations:restart-set:{sig_name}",
                         f"restarts reported {sorted(keys, key=str)}, "
                         f"catalogued {sorted(self.catalogued)}"))
            return viol
        for r in sorted(self.catalogued):
            want = truth_restart(self.spec, r)
            if not same_entry(res[r], want):
                viol.append((
                    f"C18:{'read_' if from_file else ''}iterations:"
                    f"wrong-entry:{sig_name}",
                    f"restart {r}: got {norm(res[r])} expected {want}"
                    [:400]))
        if not from_file:
            # the file written parses back to the in-memory structure
            from aurel import reading
            with quiet():
                back = reading.read_iterations(dict(self.param),
                                               verbose=False)
            for r in sorted(self.catalogued):
                if r not in back or not same_entry(
                        back[r], truth_restart(self.spec, r)):
                    viol.append((
                        f"C18:iterations:file-roundtrip:{sig_name}",
                        f"restart {r}: file parses to "
                        f"{norm(back.get(r))}"[:300]))
            # overall covers the union of on-disk iterations
            if overall is None:
                viol.append(("C18:iterations:no-overall", ""))
            else:
                for rl in range(3):
                    union = set()
                    segs = []
                    for r in sorted(self.catalogued):
                        rs = self.spec['restarts'][r]
                        its = rs.get('its', {}).get(rl)
                        if its:
                            union |= set(its)
                            segs.append(its)
                    if not union:
                        continue
                    exp = set()
                    for seg in norm(overall.get(f'rl = {rl}', [])):
                        if len(seg) > 1:
                            exp |= set(range(seg[0], seg[1] + 1, seg[2]))
                        else:
                            exp.add(seg[0])
                    if not union <= exp:
                        viol.append((
                            f"C18:iterations:overall-misses:{sig_name}",
                            f"rl={rl}: overall {norm(overall)} expands to "
                            f"{sorted(exp)} but {sorted(union - exp)} are "
                            "on disk"[:300]))
                    contiguous = all(
                        segs[i + 1][0] <= segs[i][-1] + (
                            segs[i][1] - segs[i][0] if len(segs[i]) > 1
                            else (segs[i + 1][1] - segs[i + 1][0]
                                  if len(segs[i + 1]) > 1 else 10**9))
                        for i in range(len(segs) - 1))
                    # (also across gaps between restarts: the docstring
                    # promises separate entries when ranges cannot be merged)
                    if exp != union and union <= exp:
                        viol.append((
                            f"C18:iterations:overall-extra:{sig_name}",
                            f"rl={rl}: overall expands to {sorted(exp)}, "
                            f"on disk {sorted(union)}"[:300]))
            # incremental == fresh scan of the same restarts
            fresh_root = runner.scratch_root()
            try:
                for r in sorted(self.catalogued):
                    shutil.copytree(
                        os.path.join(self.simdir(), f'output-{r:04d}'),
                        os.path.join(fresh_root, self.name,
                                     f'output-{r:04d}'),
                        ignore=shutil.ignore_patterns('content.txt'))
                with quiet():
                    fres = reading.iterations(
                        etgen.make_param(fresh_root, self.name),
                        skip_last=False, verbose=False)
                fres = dict(fres)
                fres.pop('overall', None)
                for r in sorted(self.catalogued):
                    a, b = dict(norm(res[r])), dict(norm(fres.get(r, {})))
                    for d in (a, b):
                        if 'var available' in d:
                            d['var available'] = set(d['var available'])
                    if a != b:
                        viol.append((
                            f"C18:iterations:incremental-vs-fresh:"
                            f"{sig_name}",
                            f"restart {r}: incremental {a} fresh {b}"
                            [:300]))
            except Exception as ex:      # noqa: BLE001
                viol.append((f"C18:iterations:fresh-scan-raised:{sig_name}",
                             repr(ex)[:200]))
            finally:
                shutil.rmtree(fresh_root, ignore_errors=True)
        return viol


def factory():
    return System(_CFG)


def ops_menu(nrestarts, small=False):
    ops = [('iterations', True, 'sorted'), ('iterations', False, 'sorted'),
           ('read_iterations',), ('appear',)]
    if not small:
        ops += [('iterations', False, 'reversed')]
        ops += [('get_content', 0, False), ('get_content', 0, True)]
        if nrestarts > 1:
            ops += [('get_content', nrestarts - 1, False)]
    return ops


# ---- E2: parsing inverses ----------------------------------------------------
def parsing_cases(run):
    from aurel import reading
    n = 0
    thorns = ['ADMBASE', 'HYDROBASE', 'ML_BSSN', 'admbase', 'WEYLSCAL4']
    variables = ['gxx', 'alp', 'vel[0]', 'Psi4r', 'w_lorentz', 'M1']
    for thorn, var, it, tl, m, rl, c in itertools.product(
            thorns, variables, [0, 7, 128, 1000000], [0, 1], [False, True],
            [None, 0, 1, 12], [None, 0, 5, 123]):
        key = f"{thorn}::{var} it={it} tl={tl}"
        if m:
            key += " m=0"
        if rl is not None:
            key += f" rl={rl}"
        if c is not None:
            key += f" c={c}"
        got = reading.parse_hdf5_key(key)
        want = {'thorn': thorn, 'variable': var, 'it': it, 'tl': tl,
                'm': 0 if m else None, 'rl': rl, 'c': c,
                'combined variable name': f"{thorn}::{var}"}
        n += 1
        if not has_fields(got, want):
            run.violation("C18:parse_hdf5_key:wrong",
                          f"{key!r} -> {got}", {'key': key})
    for bad in ['', 'foo', 'Parameters and Global Attributes',
                'ADMBASE:gxx it=0 tl=0', 'gxx it=0 tl=0 rl=0',
                'ADMBASE::gxx it= tl=0', 'ADMBASE::gxx tl=0 it=0']:
        n += 1
        if reading.parse_hdf5_key(bad) is not None:
            run.violation("C18:parse_hdf5_key:accepts-invalid",
                          f"{bad!r} -> {reading.parse_hdf5_key(bad)}",
                          {'key': bad})
    dirs = ['', '/data/sims/', '/a b/c-d.e/', 'rel/dir.h5/',
            '/x/restart 3/rl = 1/']
    for d, tg, name, pre, fn, post in itertools.product(
            dirs, [None, 'admbase', 'ml_bssn', 'hydrobase'],
            ['metric', 'rho', 'vel[0]', 'w_lorentz', 'ml_trace_curv', 'H'],
            [False, True], [None, 0, 7, 123], [False, True]):
        if (pre and post) or (post and fn is None):
            continue   # 'name.xyz.h5' is the same name either way
        base = (tg + '-' if tg else '') + name
        f = base + ('.xyz' if pre else '')
        if fn is not None:
            f += f'.file_{fn}'
        f += ('.xyz' if post else '') + '.h5'
        got = reading.parse_h5file(d + f)
        want = {'thorn_with_dash': tg + '-' if tg else None, 'thorn': tg,
                'variable_or_group': name,
                'base_name': base if tg else None,
                'xyz_prefix': '.xyz' if pre else None,
                'chunk_number': fn,
                'xyz_suffix': '.xyz' if post else None,
                'group_file': tg is not None}
        n += 1
        if not has_fields(got, want):
            run.violation("C18:parse_h5file:wrong", f"{d + f!r} -> {got}",
                          {'file': d + f})
    for d, it, fn in itertools.product(dirs, [0, 354, 1589], [None, 0, 12]):
        f = f"checkpoint.chkpt.it_{it}" + (
            f".file_{fn}" if fn is not None else '') + '.h5'
        got = reading.parse_h5file(d + f)
        n += 1
        if not has_fields(got, {'iteration': it, 'chunk_number': fn}):
            run.violation("C18:parse_h5file:checkpoint", f"{f!r} -> {got}",
                          {'file': d + f})
    for bad in ['foo.txt', 'alp.h5.bak', '', 'alp', '.h5', 'a b.h5',
                'alp.file_.h5', 'x-y-z.h5x']:
        n += 1
        if reading.parse_h5file(bad) is not None:
            run.violation("C18:parse_h5file:accepts-invalid",
                          f"{bad!r} -> {reading.parse_h5file(bad)}",
                          {'file': bad})
    return n


PAR_VALUES = [
    ('Thorn1::int_pos', '42', 42), ('Thorn1::int_neg', '-7', -7),
    ('Thorn1::flt', '0.25', 0.25), ('Thorn1::flt_neg', '-1.5', -1.5),
    ('Thorn1::sci', '1e-3', 1e-3), ('Thorn1::sci2', '2.5e+2', 250.0),
    ('Thorn2::str_q', '"time"', 'time'), ('Thorn2::boolish', 'yes', 'yes'),
    ('Thorn2::quoted_bool', '"no"', 'no'),
    ('Thorn2::path', '"/a/b::c=d"', '/a/b::c=d'),
    ('Thorn3::spaced', '  3  ', 3), ('Thorn3::zero', '0', 0),
    ('Thorn3::version', '"1.2.3"', '1.2.3'),
]


def par_case(simname):
    from aurel import reading
    root = runner.scratch_root()
    bad = []
    try:
        out = os.path.join(root, simname, 'output-0000')
        os.makedirs(os.path.join(out, simname))
        lines = ['ActiveThorns = "CoordBase Thorn1 Thorn2"',
                 'CoordBase::xmin = -2.0', 'CoordBase::xmax = 6.0',
                 'CoordBase::dx = 0.5   # comment',
                 'CoordBase::ymin = 0', 'CoordBase::ymax = 10',
                 'CoordBase::dy = 1', 'CoordBase::zmin = 0.0',
                 'CoordBase::zmax = 1.0', 'CoordBase::dz = 0.125',
                 'CoordBase::boundary_shiftout_x_lower = 1',
                 'CoordBase::boundary_shiftout_x_upper = 1',
                 'Thorn1::verbose = "yes"', 'Thorn2::verbose = "no"', '',
                 '# full comment line']
        for k, txt, _ in PAR_VALUES:
            lines.append(f"{k} = {txt}")
        with open(os.path.join(out, simname + '.par'), 'w') as f:
            f.write('\n'.join(lines) + '\n')
        old = os.environ.get('SIMLOC')
        os.environ['SIMLOC'] = root + '/'
        try:
            with quiet():
                p = reading.parameters(simname)
        finally:
            if old is None:
                del os.environ['SIMLOC']
            else:
                os.environ['SIMLOC'] = old
        for k, txt, want in PAR_VALUES:
            name = k.split('::')[1]
            got = p.get(name, '<missing>')
            if got != want or type(got) is not type(want):
                bad.append(('par-value', k, txt, repr(got)))
        if p.get('Thorn1::verbose') != 'yes' or \
                p.get('Thorn2::verbose') != 'no':
            bad.append(('par-conflict', p.get('Thorn1::verbose')))
        if p['simpath'] != root + '/' or p['simname'] != simname:
            bad.append(('par-paths',))
        # x: shiftout both -> N = L/dx - 1 + 2, min unchanged
        if p['Nx'] != 17 or p['xmin'] != -2.0 or p['Lx'] != 8.0:
            bad.append(('par-grid-x', p['Nx'], p['xmin']))
        # y: no shiftout -> lower point excluded
        if p['Ny'] != 9 or p['ymin'] != 1:
            bad.append(('par-grid-y', p['Ny'], p['ymin']))
        if not {'CoordBase', 'Thorn1', 'Thorn2', 'Thorn3'} <= set(
                p['list_of_thorns']):
            bad.append(('par-thorns',))
    except Exception as ex:       # noqa: BLE001
        bad.append(('par-raised', repr(ex)[:200]))
    finally:
        shutil.rmtree(root, ignore_errors=True)
    return bad


def label_of(cfg, kind, depth):
    return (f"name={cfg[0]}/pattern={cfg[1]}/layout="
            f"{int(cfg[2][0])}{int(cfg[2][1])}/levels={cfg[3]}/"
            f"{kind}/depth={depth}")


def plans(tier):
    lay0 = (False, True)
    cfgs = []
    for nm in NAMES:
        cfgs.append(((nm, 'three', lay0, 2), 'small', 4))
    for pat in PATTERNS:
        cfgs.append((('sim', pat, (True, False), 2), 'full',
                     3 if tier == 'quick' else 4))
    for lay in [(False, False), (True, True), (True, False), (False, True)]:
        cfgs.append((('sim-v1.2', 'two', lay, 1), 'full', 3))
    for lay in [(True, True), (True, False), (False, False)]:
        cfgs.append((('sim', 'changing_group', lay, 1), 'full', 3))
    for lay in [(False, True), (True, True)]:
        cfgs.append((('sim', 'bracket_names', lay, 1), 'full', 3))
    for lay in [(True, True), (True, False), (False, False)]:
        cfgs.append((('sim', 'contained_names', lay, 1), 'full', 3))
    cfgs.append((('sim', 'dead_restart', lay0, 2), 'full', 3))
    cfgs.append((('sim', 'two', lay0, 3), 'full', 3))
    cfgs.append((('sim', 'three', (True, True), 3), 'full', 3))
    cfgs.append((('sim', 'two+tl', lay0, 2), 'full', 3))
    cfgs.append((('sim', 'three+noise', lay0, 2), 'full', 3))
    cfgs.append((('sim', 'singles+noise', (True, True), 1), 'full', 3))
    if tier == 'thorough':
        for nm in NAMES:
            cfgs.append(((nm, 'empty_mid', (True, True), 2), 'full', 3))
    return cfgs


def main(tier):
    global _CFG
    run = runner.Run(PID, tier, "model_checking")
    runner.in_child(etgen.selftest)
    nparse = runner.guard(run, 'C18:parsing:raised', parsing_cases, run)
    for nm in NAMES:
        for bad in runner.in_child(par_case, nm):
            spec = 'plain' if nm in ('sim', 'sim-v1.2') else 'special-name'
            run.violation(f"C18:parameters:{bad[0]}:{spec}",
                          f"simname={nm!r}: {bad}", {'simname': nm})
    cfgs = plans(tier)
    total = {'states': 0, 'transitions': 0, 'pruned': 0}
    per = {}
    roots = []
    try:
        for cfg, kind, depth in cfgs:
            if cfg not in _PRISTINE:
                root = runner.scratch_root()
                roots.append(root)
                runner.in_child(build_pristine, cfg, root)
                _PRISTINE[cfg] = root
            _CFG = cfg
            ops = ops_menu(len(PATTERNS[cfg[1].split('+')[0]]), small=(kind == 'small'))
            label = label_of(cfg, kind, depth)
            st = explorer.bfs(factory, ops, depth, run, label=label,
                              budget_s=600, group=4)
            per[label] = st
            for k in total:
                total[k] += st[k]
    finally:
        for r in roots:
            shutil.rmtree(r, ignore_errors=True)
    run.note(f"explored {len(cfgs)} directory configurations: {total}")
    run.sample({'directory': {'simname': 'my_restart_sim',
                              'pattern': 'three', 'layout': 'proc/ungrouped'},
                'history': ["iterations(skip_last=True)", "appear",
                            "iterations(skip_last=False)",
                            "read_iterations()"]})
    run.assume("a restart is only catalogued when complete (files are not "
               "added to an already catalogued restart)")
    run.assume("uniform stride per level inside a restart")
    hs = runner.hashseed_children(PID, run) if tier == 'thorough' else []
    return run.finish({
        'hash_seed_children': hs,
        'states': total['states'], 'transitions': total['transitions'],
        'traces_validated_against_impl': total['transitions'],
        'histories_pruned': total['pruned'],
        'parsing_cases': nparse, 'par_files': len(NAMES),
        'directory_configurations': len(cfgs), 'per_plan': per,
        'rule': "state = (visible restarts, iterations.txt, every "
                "content.txt); transition = one real catalogue call or a "
                "'restart appears' event",
        'exhaustive': True,
    })


def replay(rec):
    global _CFG
    c = rec['case']
    if 'label' not in c:
        print(rec)
        return 1
    found = None
    for tier in ('quick', 'thorough'):
        for cfg, kind, depth in plans(tier):
            if label_of(cfg, kind, depth) == c['label']:
                found = (cfg, kind)
    if found is None:
        print("plan not found", c['label'])
        return 2
    cfg, kind = found
    root = runner.scratch_root()
    try:
        runner.in_child(build_pristine, cfg, root)
        _PRISTINE[cfg] = root
        _CFG = cfg
        ops = ops_menu(len(PATTERNS[cfg[1].split('+')[0]]), small=(kind == 'small'))

        def go():
            return explorer.replay_history(factory, ops, c['history_idx'])
        v = runner.in_child(go)
    finally:
        shutil.rmtree(root, ignore_errors=True)
    return 1 if v else 0
