"""C01 - the lazy cache is transparent: a quantity's value never depends on
request history, clean-up period or memory threshold.

E1 on the real AurelCore: every request history up to a depth over the
description keys + helper calls x cache configurations x input
configurations (all exact solutions).  Oracle per transition: the value (and
every cached entry) equals what a fresh instance returns, to round-off; a
deviation above round-off is an *obligation* that is discharged by replaying
the same history at two finer resolutions, where it must converge away at the
order of the scheme - the literal reading of "up to the discretisation
error".  No table of which guards are 'algebraic' is used.
"""
import math

import numpy as np

from mc import explorer, runner
from checks import cachecommon as cc
from checks import grcommon as gc

PID = "C01"
TIGHT = 1e-9
FINE = (8, 16)
MATTER_ONLY = ['rho0', 'eps', 'rho', 'enthalpy', 'press', 'conserved_D',
               'conserved_E', 'rho_n', 'Tdown4', 'gammadet', 'Ttrace']
_CFG = None          # (input config, cache config, N, p, seed)
_OPS = None


class System:
    def __init__(self, cfg=None):
        self.cfg = cfg or _CFG
        incfg, cconf, N, p, seed = self.cfg
        self.rel, self.inputs, self.F = cc.make_core(incfg, cconf, N, p,
                                                     seed)
        self.in_digest = {k: runner.digest(v)
                          for k, v in self.inputs.items()}
        self.last = None

    def canon(self):
        rel = self.rel
        ages = tuple(sorted(
            (k, rel.calculation_count - rel.last_accessed.get(k, -10 ** 6))
            for k in rel.data))
        return (ages, rel.calculation_count
                % rel.clear_cache_every_nbr_calc)

    def outcome(self):
        return self.last

    def fresh(self, op):
        incfg, cconf, N, p, seed = self.cfg
        return cc.fresh_value(incfg, N, p, seed, op)

    def apply(self, op, checked=True):
        rel = self.rel
        viol = []
        guards = frozenset(k for k in cc.GUARD_KEYS if k in rel.data)
        try:
            v = cc.do_op(rel, op, self.F)
        except Exception as ex:     # noqa: BLE001
            self.last = ('raised', op)
            if checked:
                viol.append((f"C01:request-raised:{type(ex).__name__}",
                             f"{self.cfg[:2]} request {op}: {ex!r}"[:300]))
            return viol
        if not checked:
            return viol
        loose = []
        d = cc.unflatten_compare(v, self.fresh(op))
        if d > TIGHT:
            loose.append((op, d))
        # cache-coherence invariant: every entry equals its fresh value
        for k, val in list(rel.data.items()):
            if k in self.inputs:
                if runner.digest(val) != self.in_digest[k] or \
                        val is not self.inputs[k]:
                    viol.append((f"C01:input-altered:{k}",
                                 f"{self.cfg[:2]} after {op}: input {k} "
                                 "changed or was replaced"))
                continue
            if k == op:
                continue
            dk = cc.unflatten_compare(val, self.fresh(k))
            if dk > TIGHT:
                loose.append((k, dk))
        self.last = ('ok',) if not loose else ('loose', tuple(
            (k, guards if k == op else None,
             'inf' if not math.isfinite(dd) else int(math.floor(
                 math.log10(dd)))) for k, dd in loose))
        return viol


def factory():
    return System()


def discharge(task):
    """Replay a history on two finer grids; the deviation of `key` from the
    fresh value must converge away."""
    cfg, hist_ops, key = task
    incfg, cconf, N, p, seed = cfg
    errs = []
    present = []
    import time
    t0 = time.time()
    for Nf in FINE:
        sysm = System((incfg, cconf, Nf, 4, seed))
        last = None
        for op in hist_ops:
            last = cc.do_op(sysm.rel, op, sysm.F)
        if key == hist_ops[-1]:
            val = last
        elif key in sysm.rel.data:
            val = sysm.rel.data[key]
        else:
            present.append(False)
            continue
        present.append(True)
        errs.append(cc.unflatten_compare(
            val, cc.fresh_value(incfg, Nf, 4, seed, key), absolute=True))
    return {'task': [list(cfg[:2]), list(hist_ops), key], 'errs': errs,
            'present': present, 'wall': round(time.time() - t0, 1)}


def plans(tier, seed):
    keys = cc.all_keys()
    full = keys + cc.HELPERS
    red = cc.REDUCED + cc.HELPERS[:4]
    small = ['gdown4', 'gdet', 'betaup3', 'betax', 'Tdown4', 'Ttrace',
             's_Riemann_down3', 's_Ricci_down3', 'st_Ricci_down4',
             'st_Ricci_down3', 'st_Riemann_down4', 'st_Weyl_down4', 'rho',
             'rho0', 'eps', 'Kretschmann', 'Weyl_Psi', 'Psi4_lm',
             'Hamiltonian', 'h:s_curl', 'h:tetrad_base']
    P = []
    N, p = 6, 2
    dflt = (20, 'never')
    if tier == 'quick':
        P.append((('tensor', dflt, N, p, seed), full, 2))
        P.append((('components', (3, 'mid'), N, p, seed), red, 2))
        P.append((('fluid', dflt, N, p, seed), red, 2))
        P.append((('rho', (7, 'never'), N, p, seed), red, 2))
        P.append((('partial', (3, 'mid2'), N, p, seed), red, 2))
        P.append((('vacuum', (1, 'mid'), N, p, seed), red, 2))
        P.append((('tensor', (1, 'always'), N, p, seed), small, 3))
        P.append((('components', (2, 'mid'), N, p, seed), small, 3))
        # a component triple followed by a quantity that re-uses the method
        # assembling it (alternative derivations '..._fromMom/_fromHam')
        P.append((('tensor', dflt, N, p, seed),
                  ['Momentumx', 'Momentumy', 'Momentumz',
                   'fluxup3_n_fromMom', 'rho_n_fromHam', 'Momentumup3'], 4))
        P.append((('rho_only', (1, 'always'), N, p, seed), MATTER_ONLY, 3))
        P.append((('tensor_other', dflt, N, p, seed),
                  red + ['uup4', 'eweyl_u_down4', 'bweyl_u_down4',
                         'h:null_vector_base'], 2))
    else:
        for incfg in ('tensor', 'components', 'fluid', 'rho', 'partial',
                      'vacuum'):
            for cconf in (dflt, (1, 'always'), (3, 'mid'), (5, 'mid2'),
                          (2, 'never')):
                P.append(((incfg, cconf, N, p, seed), full, 2))
        for incfg in ('tensor', 'components', 'fluid'):
            for cconf in ((1, 'always'), (2, 'mid'), (3, 'mid2')):
                P.append(((incfg, cconf, N, p, seed), red, 3))
        # 'rho_only' has a vacuum slab inside an FLRW geometry: on the slab
        # the inputs do not satisfy Einstein's equations, so only the matter
        # algebra is in its alphabet (a quantity derived through Einstein's
        # equations legitimately differs there from the one derived from the
        # geometry; see DESIGN 13.4)
        for cconf in ((1, 'always'), (2, 'mid'), (3, 'mid2')):
            P.append((('rho_only', cconf, N, p, seed), MATTER_ONLY, 3))
        P.append((('tensor', (2, 'mid'), N, p, seed), small, 4))
    return P


def main(tier):
    global _CFG
    run = runner.Run(PID, tier, "model_checking")
    total = {'states': 0, 'transitions': 0, 'pruned': 0}
    per = {}
    obligations = {}
    for cfg, ops, depth in plans(tier, run.seed):
        _CFG = cfg
        cc.config_inputs(cfg[0], cfg[2], cfg[4])   # inherited by the pool
        label = (f"{cfg[0]}/period={cfg[1][0]}/thr={cfg[1][1]}/"
                 f"ops={len(ops)}/depth={depth}")
        st = explorer.bfs(factory, ops, depth, run, label=label,
                          budget_s=900 if tier == 'quick' else 7200,
                          group=16, keep_outcome_hist=True)
        oh = st.pop('outcome_hist')
        for outcome, hist in oh.items():
            if outcome and outcome[0] == 'loose':
                for k, guards, bucket in outcome[1]:
                    # class = (inputs, entry, guard state, magnitude); the
                    # representative is the one with the mildest cache
                    # setting, then the shortest history
                    cls = (cfg[0], k, guards, bucket)
                    rank = ({'never': 0, 'mid2': 1, 'mid': 2,
                             'always': 3}[cfg[1][1]], -cfg[1][0], len(hist))
                    if cls not in obligations or rank < obligations[cls][3]:
                        obligations[cls] = (cfg, tuple(ops[i]
                                                       for i in hist), k,
                                            rank)
        per[label] = st
        for k in total:
            total[k] += st[k]
        run.note(f"{label}: {st}")
    # ---- discharge the cross-branch obligations on finer grids
    tasks = [v[:3] for v in obligations.values()]
    results = runner.pmap(discharge, tasks) if tasks else []
    discharged = unreproducible = 0
    for (cls, task), r in zip(list(obligations.items()), results):
        incfg, key, guards, bucket = cls
        cconf = task[0][1]
        if not all(r['present']) or len(r['errs']) < 2:
            unreproducible += 1
            continue
        e_lo, e_hi = r['errs']
        ok, why = gc.converges(e_lo, e_hi, 4, floor=TIGHT, cap=None,
                               slack=1.7)
        if ok:
            discharged += 1
        else:
            run.violation(
                f"C01:history-dependent:{key}",
                f"inputs={incfg} cache={cconf}: after {list(task[1])} the "
                f"value of {key} differs from a fresh instance's and the "
                f"difference does not vanish with resolution ({why}; "
                f"N=6 relative deviation ~1e{bucket}; absolute deviations "
                f"at the two finer resolutions: {r['errs']})",
                {'config': [incfg, list(cconf)], 'history': list(task[1]),
                 'key': key, 'errors_fine': r['errs']})
    run.note("discharge times: " + str(sorted(
        ((r['wall'], r['task'][0][0], r['task'][2]) for r in results),
        reverse=True)[:5]))
    run.note(f"obligations={len(tasks)} discharged={discharged} "
             f"unreproducible_on_fine_grid={unreproducible}")
    if tasks:
        run.sample({'obligation': {'inputs': tasks[0][0][0],
                                   'cache': tasks[0][0][1],
                                   'history': list(tasks[0][1]),
                                   'entry': tasks[0][2]}})
    run.sample({'history': ['st_Riemann_down4', 'st_Weyl_down4',
                            'st_Riemann_down4'],
                'oracle': 'each value == fresh instance value (1e-9) or '
                          'converging to it'})
    run.assume("inputs are frozen (README usage) and satisfy Einstein's "
               "equations with the supplied matter / Lambda / vacuum flag")
    run.assume("round-off class: relative 1e-9 of the larger array norm")
    return run.finish({
        'states': total['states'], 'transitions': total['transitions'],
        'traces_validated_against_impl': total['transitions'],
        'histories_pruned': total['pruned'],
        'obligations': len(tasks), 'discharged': discharged,
        'obligations_unreproducible_on_fine_grid': unreproducible,
        'per_plan': per,
        'rule': "state = (cached keys with ages, count mod period); "
                "transition = one real request or helper call; every "
                "cached entry compared with the fresh value after each",
        'exhaustive': True,
    })


def replay(rec):
    c = rec['case']
    if 'history' in c and 'config' in c:
        incfg, cconf = c['config']
        r = discharge(((incfg, tuple(cconf), 6, 2, rec.get('seed', 0)),
                       tuple(c['history']), c['key']))
        print(r)
        return 0
    print(rec)
    return 0
