"""Shared driver of the lazy-cache checks C01, C02, C03: a real AurelCore on a
small periodic grid, input configurations that are exact solutions, request /
helper-call operations, and value flattening / digests.
"""
import numpy as np

from mc import runner
from refs import fields, gr
from refs.jet import M
from checks import grcommon as gc

GUARD_KEYS = ('gdown4', 'gammadown3', 'Kdown3', 'betaup3', 'dtbetaup3',
              'rho', 'rho0', 'Tdown4', 's_Riemann_down3', 'st_Ricci_down4',
              'st_Riemann_down4', 'Momentumx', 'Weyl_Psi4r', 'betax')
REDUCED = ['gdown4', 'gammadown3', 'Kdown3', 'betaup3', 'dtbetaup3', 'rho',
           'rho0', 'Tdown4', 's_Riemann_down3', 'st_Ricci_down4',
           'Momentumx', 'Momentumy', 'Momentumdownx', 'st_Riemann_down4',
           'gtt', 'gtx', 'gdet', 'gxx', 'kxy', 'betax', 'dtbetay', 'eps',
           'Ttrace', 's_Ricci_down3', 'st_Ricci_down3', 'Momentumup3',
           'st_Weyl_down4', 'Weyl_Psi',
           'gammaup3', 'Ktrace', 's_Gamma_udd3', 's_RicciS', 'Hamiltonian',
           'st_Gamma_udd4', 'Kretschmann', 'theta', 'dts_Gamma_bssnok',
           'enthalpy', 'rho_n', 'eweyl_n_down3', 'Weyl_invariants',
           'dtconserved']
HELPERS = ['h:s_covd_u', 'h:Lie_dd', 'h:s_curl', 'h:tetrad_base',
           'h:null_ray', 'h:st_covd_d', 'h:null_vector_base',
           # a second surface function on the same instance (an ellipsoid,
           # ingoing rays): nothing may be remembered from the first surface
           'h:null_ray_ell']
# (options given as arrays, unsorted radii: they are caller-owned objects too)
CORE_KW = {'center': np.array([3.0, 3.0, 3.0]),
           'extract_radii': np.array([1.2, 0.8]), 'lmax': 2}
_INPUT_CACHE = {}


def all_keys():
    from aurel.core import descriptions
    return list(descriptions.keys())


# ---- input configurations (all exact solutions) ------------------------------
def flrw_mapped(seed):
    """Radiation FLRW, a = t^(1/2), through a spatial coordinate map: exact
    perfect fluid at rest (u = n), homogeneous rho(t), non-trivial metric."""
    k = fields.Knobs(seed + 300)
    eps_ = 0.08

    def g4(t, x, y, z, m):
        a2 = t * 1.0
        X = [x, y, z]
        K = [[1, 1, 0], [0, 1, 1], [1, 0, 1]]
        Jac = [[None] * 3 for _ in range(3)]
        for a in range(3):
            arg = sum((K[a][i] * X[i] for i in range(3)), start=k.P[a])
            cs = m.cos(arg)
            for i in range(3):
                Jac[a][i] = (1.0 if a == i else 0.0) + eps_ * k.A[a] * K[a][
                    i] * cs
        g = [[0.0 * x for _ in range(4)] for _ in range(4)]
        g[0][0] = -1.0 + 0.0 * x
        for i in range(3):
            for j in range(3):
                g[i + 1][j + 1] = a2 * sum((Jac[a][i] * Jac[a][j]
                                            for a in range(3)), start=0.0)
        return g
    return fields.from_g4('flrw_mapped', g4)


T_FLRW = 1.3


def config_inputs(cfg, N, seed):
    """-> (inputs dict, core kwargs, t0).  Cached per process."""
    key = (cfg, N, seed)
    if key in _INPUT_CACHE:
        return _INPUT_CACHE[key]
    param = fields.grid(N)
    X, Y, Z = fields.mesh(param)
    kw = dict(CORE_KW)
    if cfg == 'excised':
        # the same exact solution with one grid point of the metric masked
        # by NaN (an excised puncture): non-finite values then live in many
        # derived arrays
        inp, kw0, F, param = config_inputs('tensor', N, seed)
        inp = {k: np.array(v, copy=True) for k, v in inp.items()}
        c = N // 2
        inp['gammadown3'][:, :, c, c, c] = np.nan
        _INPUT_CACHE[key] = (inp, dict(kw0), F, param)
        return _INPUT_CACHE[key]
    if cfg == 'tensor_other':
        # same exact solution, fluid-adapted tetrad (e0 = u is then the very
        # array cached as uup4)
        inp, kw0, F, param = config_inputs('tensor', N, seed)
        kw0 = dict(kw0, tetrad='other')
        _INPUT_CACHE[key] = (inp, kw0, F, param)
        return _INPUT_CACHE[key]
    if cfg in ('tensor', 'components', 'partial'):
        if cfg == 'partial':
            st = fields.lattice('L1', 'S2', 'G2', 'D1', Lambda=0.3,
                                seed=seed)
            bf = st.beta_f
            st.beta_f = lambda t, x, y, z, m: [0.0 * x, bf(t, x, y, z, m)[1],
                                               0.0 * x]
        else:
            st = fields.lattice('L2', 'S3', 'G2', 'D1', Lambda=0.3,
                                seed=seed)
        inp = gc.ref_chunks(st, fields.T0, X, Y, Z, gc.inputs_fn(True))
        kw['Lambda'] = 0.3
        if cfg == 'components':
            out = {'alpha': inp['alpha'], 'dtalpha': inp['dtalpha'],
                   'Tdown4': inp['Tdown4']}
            for (i, j), n in zip(gr.SYM6, ['xx', 'xy', 'xz', 'yy', 'yz',
                                           'zz']):
                out['g' + n] = inp['gammadown3'][i, j].copy()
                out['k' + n] = inp['Kdown3'][i, j].copy()
            for i, c in enumerate('xyz'):
                out['beta' + c] = inp['betaup3'][i].copy()
                out['dtbeta' + c] = inp['dtbetaup3'][i].copy()
            inp = out
        elif cfg == 'partial':
            inp = {'gammadown3': inp['gammadown3'], 'Kdown3': inp['Kdown3'],
                   'alpha': inp['alpha'], 'dtalpha': inp['dtalpha'],
                   'betay': inp['betaup3'][1].copy(),
                   'dtbetay': inp['dtbetaup3'][1].copy(),
                   'Tdown4': inp['Tdown4']}
    elif cfg == 'rho_only':
        # energy density alone (eps and rho0 are then derived), vanishing on
        # one slab of the grid: a vacuum region next to matter
        st = flrw_mapped(seed)
        base = gc.ref_chunks(st, T_FLRW, X, Y, Z, gc.inputs_fn(True))
        H = 0.5 / T_FLRW
        rho = (3 * H * H / gr.KAPPA + 0 * X) * (X > X.min())
        inp = {'gammadown3': base['gammadown3'], 'Kdown3': base['Kdown3'],
               'press': rho / 3.0, 'rho': rho}
        kw['Lambda'] = 0.0
    elif cfg in ('fluid', 'rho'):
        st = flrw_mapped(seed)
        base = gc.ref_chunks(st, T_FLRW, X, Y, Z, gc.inputs_fn(True))
        H = 0.5 / T_FLRW
        rho = 3 * H * H / gr.KAPPA + 0 * X
        e = 0.2
        inp = {'gammadown3': base['gammadown3'], 'Kdown3': base['Kdown3'],
               'press': rho / 3.0, 'eps': e + 0 * X}
        if cfg == 'fluid':
            inp['rho0'] = rho / (1 + e)
        else:
            inp['rho'] = rho
        kw['Lambda'] = 0.0
    elif cfg == 'vacuum':
        st = fields.minkowski_mapped(seed=seed)
        inp = gc.ref_chunks(st, fields.T0, X, Y, Z, gc.inputs_fn(False))
        kw['vacuum'] = True
    else:
        raise ValueError(cfg)
    # helper test fields
    sc, v3, v4, tn = fields.test_fields(seed)
    tt = np.full(X.shape, fields.T0)
    F = {'f': sc(tt, X, Y, Z, M), 'V': np.array(v3(tt, X, Y, Z, M)),
         'U': np.array(v4(tt, X, Y, Z, M)),
         'T': np.array(tn(tt, X, Y, Z, M)),
         'r': np.sqrt((X - 3.0) ** 2 + (Y - 3.0) ** 2 + (Z - 3.0) ** 2
                      + 0.5),
         'ell': np.sqrt(1.7 * (X - 3.0) ** 2 + 0.6 * (Y - 2.5) ** 2
                        + (Z - 3.2) ** 2 + 0.3 * (X - 3.0) * (Z - 3.2)
                        + 0.8)}
    _INPUT_CACHE[key] = (inp, kw, F, param)
    return _INPUT_CACHE[key]


def scalar_bytes(N):
    return N ** 3 * 8


def cache_kwargs(cc, N, inp):
    """cc = (period, threshold class)."""
    period, thr = cc
    insize = sum(np.asarray(v).nbytes for v in inp.values())
    gb = 1024.0 ** 3
    val = {'always': 1e-12,
           'mid': (insize + 6 * scalar_bytes(N)) / gb,
           'mid2': (insize + 40 * scalar_bytes(N)) / gb,
           'never': 4}[thr]
    return {'clear_cache_every_nbr_calc': period,
            'memory_threshold_inGB': val}


def make_core(cfg, cc, N, p, seed, cls=None, freeze=True):
    from aurel.core import AurelCore
    from aurel.finitedifference import FiniteDifference
    inp, kw, F, param = config_inputs(cfg, N, seed)
    kw = dict(kw)
    kw.update(cache_kwargs(cc, N, inp))
    with gc.quiet():
        fd = FiniteDifference(param, boundary='periodic', fd_order=p,
                              verbose=False)
        rel = (cls or AurelCore)(fd, verbose=False, **kw)
    mine = {}
    for k, v in inp.items():
        mine[k] = np.array(v, copy=True)
        rel.data[k] = mine[k]
    if freeze:
        rel.freeze_data()
    return rel, mine, F


def do_op(rel, op, F):
    """Execute one operation; returns the value handed out."""
    with gc.quiet():
        if not op.startswith('h:'):
            return rel[op]
        if op == 'h:s_covd_u':
            return rel.s_covd(F['V'], 'u')
        if op == 'h:Lie_dd':
            return rel.Lie_beta(F['T'], 's_dd', weight=-2 / 3)
        if op == 'h:s_curl':
            return rel.s_curl(F['T'], 'dd')
        if op == 'h:tetrad_base':
            return rel.tetrad_base()
        if op == 'h:null_ray':
            return rel.null_ray_expansion(F['r'], 'out')
        if op == 'h:null_ray_ell':
            return rel.null_ray_expansion(F['ell'], 'in')
        if op == 'h:null_vector_base':
            return rel.null_vector_base()
        if op == 'h:st_covd_d':
            return rel.st_covd(F['U'], 0.1 * F['U'], 'd')
    raise ValueError(op)


def flatten(v, path=''):
    """Value -> list of (path, ndarray or None)."""
    if isinstance(v, dict):
        out = []
        for k in sorted(v, key=repr):
            out += flatten(v[k], f"{path}[{k!r}]")
        return out
    if isinstance(v, (list, tuple)):
        out = []
        for i, x in enumerate(v):
            out += flatten(x, f"{path}[{i}]")
        return out
    if v is None:
        return [(path, None)]
    return [(path, np.asarray(v))]


def reldiff(a, b, absolute=False):
    """max difference of two flattened values relative to the larger
    array norm (floored at 1e-3), or absolute; inf on structure mismatch."""
    fa, fb = flatten(a), flatten(b)
    if [p for p, _ in fa] != [p for p, _ in fb]:
        return float('inf')
    worst = 0.0
    for (_, x), (_, y) in zip(fa, fb):
        if x is None or y is None:
            if not (x is None and y is None):
                return float('inf')
            continue
        if x.shape != y.shape:
            return float('inf')
        d = np.abs(x - y)
        if not np.all(np.isfinite(d)):
            if np.array_equal(np.isfinite(x), np.isfinite(y)) and \
                    np.allclose(x[np.isfinite(x)], y[np.isfinite(y)],
                                rtol=1e-9, atol=0):
                continue
            return float('inf')
        sc = 1.0 if absolute else max(
            float(np.abs(y).max()), float(np.abs(x).max()), 1e-3)
        worst = max(worst, float(d.max()) / sc)
    return worst


def digest_value(v):
    return tuple((p, None if a is None else runner.digest(a))
                 for p, a in flatten(v))


_FRESH = {}


def fresh_value(cfg, N, p, seed, op):
    """What a fresh instance holding only the inputs returns for `op`."""
    key = (cfg, N, p, seed, op)
    if key not in _FRESH:
        rel, _, F = make_core(cfg, (10 ** 9, 'never'), N, p, seed)
        v = do_op(rel, op, F)
        _FRESH[key] = [(pth, None if a is None else np.array(a, copy=True))
                       for pth, a in flatten(v)]
    return _FRESH[key]


def unflatten_compare(v, fresh_flat, absolute=False):
    """reldiff between a live value and a stored flattened fresh value."""
    fa = flatten(v)
    if [p for p, _ in fa] != [p for p, _ in fresh_flat]:
        return float('inf')
    worst = 0.0
    for (_, x), (_, y) in zip(fa, fresh_flat):
        worst = max(worst, reldiff(x, y, absolute)
                    if not (x is None and y is None) else 0.0)
    return worst
