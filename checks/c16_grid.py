"""C16 - the grid object describes exactly the grid the parameters specify.

Exhaustive enumeration of the (N, min, spacing) lattice per axis x fd_order,
closed-form expectations on every attribute, plus the consumers that mix
fd.N* with param['N*'].
"""
import contextlib
import io
import itertools
import os
import shutil

import numpy as np

from mc import runner

PID = "C16"
MINS = (0.0, -1.0, 0.1, -0.35, 1 / 3, -20.3, 1000.1, 1e-13, -2)  # last: int
SPACINGS = (0.1, 0.3, 1 / 3, 0.7, 0.05, 0.03125, 60.3, 1e-3, 1e-9 / 3,
            1e-13 / 3, 1)   # last: int
ORDERS = (2, 4, 6, 8)


def quiet():
    return contextlib.redirect_stdout(io.StringIO())


def param_for(axis, N, mn, d, other=((3, -0.2, 0.4), (4, 0.15, 0.25))):
    vals = [None, None, None]
    vals[axis] = (N, mn, d)
    it = iter(other)
    for a in range(3):
        if vals[a] is None:
            vals[a] = next(it)
    p = {}
    for a, c in enumerate('xyz'):
        p['N' + c], p[c + 'min'], p['d' + c] = vals[a]
    return p


def attr_case(task):
    """Closed-form checks on one grid."""
    try:
        return _attr_case(task)
    except Exception as ex:      # noqa: BLE001
        return {'task': list(task),
                'bad': [('raised', type(ex).__name__, str(ex)[:150])]}


def _attr_case(task):
    out = _attr_case_style(task, False)
    # the dictionary reading.parameters() builds from a parameter file also
    # carries the domain bounds (xmax = one spacing past the last point when
    # the upper boundary is shifted out), lengths and other entries
    more = _attr_case_style(task, True)
    out['bad'] += [('parfile-style-param',) + tuple(b) for b in more['bad']]
    return out


def _attr_case_style(task, parfile):
    from aurel.finitedifference import FiniteDifference
    axis, N, mn, d, order = task
    p = param_for(axis, N, mn, d)
    bad = []
    given = dict(p)
    if parfile:
        for c in 'xyz':
            given[c + 'max'] = p[c + 'min'] + p['N' + c] * p['d' + c]
            given['L' + c] = (p['N' + c] + 1) * p['d' + c]
        given.update({'simname': 'sim', 'max_refinement_levels': 1,
                      'list_of_thorns': ['CoordBase'], 'ghost_size': 3})
    with quiet():
        fd = FiniteDifference(given, boundary='no boundary',
                              fd_order=order, verbose=False)
    shape = (p['Nx'], p['Ny'], p['Nz'])
    # the caller re-uses its dictionary for another grid (a convergence
    # study): the object built from it must not change
    for c in 'xyz':
        given['N' + c] = p['N' + c] + 3
        given['d' + c] = p['d' + c] * 2
    if any(fd.param['N' + c] != p['N' + c] or fd.param['d' + c] != p['d' + c]
           for c in 'xyz'):
        bad.append(('param-aliased', 'fd.param follows the caller\'s dict'))
    try:
        if min(shape) >= 3 * (order if order in (2, 4, 6, 8) else 4) // 2:
            got = tuple(np.shape(fd.d3x(np.zeros(shape))))
            if got != shape:
                bad.append(('param-aliased', 'd3x shape', list(got)))
    except Exception as ex:      # noqa: BLE001
        bad.append(('param-aliased', 'd3x raised', repr(ex)[:80]))
    for a, c in enumerate('xyz'):
        arr = getattr(fd, c + 'array')
        n, m0, dd = p['N' + c], p[c + 'min'], p['d' + c]
        if len(arr) != n or getattr(fd, 'N' + c) != n:
            bad.append(('npoints', c, n, int(len(arr)),
                        int(getattr(fd, 'N' + c))))
            continue
        expect = m0 + np.arange(n) * dd
        # a couple of units in the last place of the largest coordinate:
        # the points are at min + i*spacing, not at a rounded version of it
        tol = 2 * np.spacing(max(abs(m0), abs(m0 + n * dd)))
        if np.abs(arr - expect).max() > tol:
            bad.append(('coords', c, float(np.abs(arr - expect).max())))
        if getattr(fd, c + 'max') != arr[-1]:
            bad.append(('max', c))
        if getattr(fd, c + 'min') != m0:
            bad.append(('min', c))
    if not bad:
        for name in ('x', 'y', 'z', 'r', 'theta', 'phi'):
            if np.shape(getattr(fd, name)) != shape:
                bad.append(('shape', name, list(np.shape(getattr(fd, name)))))
        for name in ('cartesian_coords', 'spherical_coords'):
            if np.shape(getattr(fd, name)) != (3,) + shape:
                bad.append(('shape', name))
        X, Y, Z = np.meshgrid(p['xmin'] + np.arange(shape[0]) * p['dx'],
                              p['ymin'] + np.arange(shape[1]) * p['dy'],
                              p['zmin'] + np.arange(shape[2]) * p['dz'],
                              indexing='ij')
        sc = max(np.abs(X).max(), np.abs(Y).max(), np.abs(Z).max(), 1e-30)
        for name, ref in (('x', X), ('y', Y), ('z', Z)):
            if np.abs(getattr(fd, name) - ref).max() > 1e-9 * sc:
                bad.append(('meshgrid', name))
        R = np.sqrt(X * X + Y * Y + Z * Z)
        if np.abs(fd.r - R).max() > 1e-9 * sc:
            bad.append(('r',))
        # spherical -> cartesian round trip on the grid itself
        xx, yy, zz = fd.spherical_to_cartesian(fd.r, fd.theta, fd.phi)
        err = max(np.abs(xx - fd.x).max(), np.abs(yy - fd.y).max(),
                  np.abs(zz - fd.z).max())
        if not err <= 1e-7 * max(fd.r.max(), 1e-30) + 1e-300:
            bad.append(('roundtrip', float(err)))
        if fd.mask_len != order // 2:
            bad.append(('mask_len',))
        # index of the grid point closest to the origin, per axis
        for c in 'xyz':
            arr = getattr(fd, c + 'array')
            ic = int(getattr(fd, f'i{c}center'))
            if not (0 <= ic < len(arr)) or abs(arr[ic]) > np.abs(
                    arr).min() * (1 + 1e-12) + 1e-300:
                bad.append(('center-index', c, ic))
        for c, h in (('x', 'dx'), ('y', 'dy'), ('z', 'dz')):
            if getattr(fd, h) != p[h] or abs(getattr(fd, 'inverse_' + h)
                                             * p[h] - 1) > 1e-15:
                bad.append(('spacing-attribute', c))
    return {'task': list(task), 'bad': bad}


def parfile_case(task):
    """The grid described by a parameter file, through reading.parameters and
    FiniteDifference: number of points and last point per axis, for domain
    bounds / spacings whose quotient is not exactly representable."""
    from aurel import reading
    from aurel.finitedifference import FiniteDifference
    xmin, nint, dx = task           # nint intervals of width dx
    xmax = xmin + nint * dx
    sim = 'parsim'
    root = runner.scratch_root()
    bad = []
    try:
        os.makedirs(os.path.join(root, sim, 'output-0000', sim))
        with open(os.path.join(root, sim, 'output-0000', sim + '.par'),
                  'w') as f:
            f.write('ActiveThorns = "CoordBase CartGrid3D"\n')
            for c in 'xyz':
                f.write(f'CoordBase::{c}min = {xmin!r}\n'
                        f'CoordBase::{c}max = {xmax!r}\n'
                        f'CoordBase::d{c} = {dx!r}\n'
                        f'CoordBase::boundary_shiftout_{c}_lower = 1\n')
        old = os.environ.get('SIMLOC')
        os.environ['SIMLOC'] = root + '/'
        try:
            with quiet():
                p = reading.parameters(sim)
                fd = FiniteDifference(p, verbose=False)
        finally:
            if old is None:
                del os.environ['SIMLOC']
            else:
                os.environ['SIMLOC'] = old
        # lower boundary point shifted out: nint points, the last one at
        # xmax - dx
        if p['Nx'] != nint or fd.Nx != nint or len(fd.xarray) != nint:
            bad.append(('parfile-npoints', p['Nx'], nint))
        elif abs(fd.xmax - (xmax - dx)) > 1e-9 * dx + 4 * np.spacing(
                abs(xmax)):
            bad.append(('parfile-extent', float(fd.xmax), xmax - dx))
    except Exception as ex:      # noqa: BLE001
        bad.append(('parfile-raised', repr(ex)[:150]))
    finally:
        shutil.rmtree(root, ignore_errors=True)
    return {'task': list(task), 'bad': bad}


def roundtrip_points():
    v = [0.0, -0.0, 1.0, -1.0, 0.3, -2.5, 1e-8, -1e-8, 1e6]
    pts = np.array(list(itertools.product(v, v, v))).T
    return pts[0].copy(), pts[1].copy(), pts[2].copy()


def trim_case(task):
    try:
        return _trim_case(task)
    except Exception as ex:      # noqa: BLE001
        return {'task': [task[0], list(task[1])],
                'bad': [('raised', type(ex).__name__, str(ex)[:150])]}


def _trim_case(task):
    """cutoffmask/cutoffmask2 remove exactly mask_len / 2 mask_len per side;
    excision does not touch its argument."""
    from aurel.finitedifference import FiniteDifference
    order, shape = task[:2]
    boundary = task[2] if len(task) > 2 else 'no boundary'
    bad = []
    p = {'Nx': 20, 'Ny': 20, 'Nz': 20, 'xmin': -1., 'ymin': -1., 'zmin': -1.,
         'dx': 0.1, 'dy': 0.1, 'dz': 0.1}
    with quiet():
        fd = FiniteDifference(p, fd_order=order, boundary=boundary,
                              verbose=False)
    # documented: an order other than 2, 4, 6, 8 falls back to 4
    eff = order if order in (2, 4, 6, 8) else 4
    m = eff // 2
    if fd.fd_order != eff or fd.mask_len != m:
        bad.append(('fallback-order', order, int(fd.fd_order),
                    int(fd.mask_len)))
    f = np.arange(int(np.prod(shape)), dtype=float).reshape(shape) + 0.5
    f0 = f.copy()
    for fn, w in ((fd.cutoffmask, m), (fd.cutoffmask2, 2 * m)):
        g = fn(f)
        sl = tuple(slice(None) for _ in shape[:-3]) + tuple(
            slice(w, s - w) for s in shape[-3:])
        expect = f0[sl]
        if (g is None or g.shape != expect.shape
                or not np.array_equal(g, expect)):
            bad.append((fn.__name__, list(shape),
                        None if g is None else list(g.shape),
                        list(expect.shape)))
        if not np.array_equal(f, f0):
            bad.append((fn.__name__, 'modified argument'))
    if len(shape) == 3:
        for fn in (fd.excision, fd.excision2):
            g = fn(f)
            if not np.array_equal(f, f0):
                bad.append((fn.__name__, 'modified argument'))
            if g.shape != f.shape or not np.isnan(g).any():
                bad.append((fn.__name__, 'no excision'))
            keep = ~np.isnan(g)
            if not np.array_equal(g[keep], f0[keep]):
                bad.append((fn.__name__, 'changed kept values'))
    return {'task': [order, list(shape)], 'bad': bad}


def consumer_case(task):
    """Components that mix fd.N* with param['N*'] must run and return the
    data shape."""
    from aurel.core import AurelCore
    from aurel.finitedifference import FiniteDifference
    from aurel import time as atime
    axis, N, mn, d = task
    p = param_for(axis, N, mn, d, other=((4, -0.5, 0.3), (5, -0.6, 0.35)))
    shape = (p['Nx'], p['Ny'], p['Nz'])
    bad = []
    try:
        with quiet():
            fd = FiniteDifference(dict(p), boundary='no boundary',
                                  fd_order=2, verbose=False)
            rel = AurelCore(fd, verbose=False)
        if tuple(rel.data_shape) != shape:
            bad.append(('data_shape',))
        x = p['xmin'] + np.arange(shape[0]) * p['dx']
        y = p['ymin'] + np.arange(shape[1]) * p['dy']
        z = p['zmin'] + np.arange(shape[2]) * p['dz']
        X, Y, Z = np.meshgrid(x, y, z, indexing='ij')
        rel.data['gammadown3'] = np.array(
            [[1 + 0.1 * np.sin(X), 0.01 * Y, 0 * X],
             [0.01 * Y, 1 + 0.1 * np.cos(Y), 0.02 * Z],
             [0 * X, 0.02 * Z, 1.2 + 0 * X]])
        rel.data['rho0'] = 1 + 0.1 * np.cos(X + Y)
        rel.data['velx'] = 0.1 + 0 * X
        rel.data['w_lorentz'] = 1.0 / np.sqrt(
            1 - rel.data['gammadown3'][0, 0] * 0.01)
        rel.freeze_data()
        with quiet():
            for key, shp in (('null_ray_exp_out', shape),
                             ('angmomdown3_n', (3,) + shape),
                             ('gammadet', shape)):
                v = rel[key]
                if np.shape(v) != shp:
                    bad.append(('consumer shape', key, list(np.shape(v))))
            tb = rel.tetrad_base()
            if any(np.shape(e) != (4,) + shape for e in tb):
                bad.append(('tetrad_base shape',))

            def est(a):
                assert a.shape == shape, a.shape
                return a[0, 0, 0]
            atime.validate_estimation_function(est, 'est', fd, verbose=False)
    except Exception as ex:    # noqa: BLE001
        bad.append(('raised', type(ex).__name__, str(ex)[:100]))
    return {'task': list(task), 'bad': bad}


def convert_block(run):
    # conversion round trip on special points
    from aurel.finitedifference import FiniteDifference
    with quiet():
        fd = FiniteDifference(param_for(0, 4, 0., 1.), verbose=False)
    x, y, z = roundtrip_points()
    x0, y0, z0 = x.copy(), y.copy(), z.copy()
    r, th, ph = fd.cartesian_to_spherical(x, y, z)
    xx, yy, zz = fd.spherical_to_cartesian(r, th, ph)
    err = np.maximum.reduce([np.abs(xx - x0), np.abs(yy - y0),
                             np.abs(zz - z0)])
    nrt = len(x)
    if not (np.all(np.isfinite(r + th + ph))
            and np.all(err <= 1e-7 * np.maximum(r, 1e-300))):
        k = int(np.argmax(err - 1e-7 * r))
        run.violation("C16:convert:roundtrip",
                      f"point ({x0[k]},{y0[k]},{z0[k]}) -> err {err[k]}",
                      {'kind': 'roundtrip', 'point': [x0[k], y0[k], z0[k]]})
    if not (np.array_equal(x, x0) and np.array_equal(y, y0)
            and np.array_equal(z, z0)):
        run.violation("C16:convert:modified-argument", "inputs changed", {})
    if np.any(th < 0) or np.any(th > np.pi) or np.any(np.abs(ph) > np.pi):
        run.violation("C16:convert:range", "angles out of range", {})
    return nrt


def main(tier):
    run = runner.Run(PID, tier, "exploration")
    rng = np.random.RandomState(run.seed)
    # VERIF_SEED perturbs which fd_order accompanies a lattice cell in the
    # quick tier (thorough: all four); the lattice itself is fixed.
    Ns = list(range(1, 41)) + [64, 100, 128]
    tasks = []
    for axis in range(3):
        for N in Ns:
            for mn in MINS:
                for d in SPACINGS:
                    if tier == 'thorough':
                        for o in ORDERS:
                            tasks.append((axis, N, mn, d, o))
                    else:
                        tasks.append((axis, N, mn, d,
                                      ORDERS[rng.randint(4)]))
    res = runner.pmap(attr_case, tasks, chunksize=64)
    for t, r in zip(tasks, res):
        run.seen(t[1:4])
        for bad in r['bad']:
            run.violation(f"C16:grid:{bad[0]}",
                          f"axis={'xyz'[t[0]]} N={t[1]} min={t[2]} "
                          f"d={t[3]}: {bad}",
                          {'kind': 'attr', 'task': list(t)})
    nrt = runner.guard(run, 'C16:convert:raised', convert_block, run,
                       default=0)
    # grids described by parameter files
    ptasks = [(xmin, nint, dx) for xmin in (-0.6, -0.3, 0.0, -0.5, 1 / 3)
              for nint in (3, 6, 12, 20) for dx in (0.1, 0.3, 0.125, 0.05)]
    for t, r_ in zip(ptasks, runner.pmap(parfile_case, ptasks, workers=4)):
        run.seen(('parfile',) + tuple(t))
        for bad in r_['bad']:
            run.violation(f"C16:{bad[0]}", f"xmin={t[0]} intervals={t[1]} "
                          f"dx={t[2]}: {bad}", {'kind': 'parfile',
                                                'task': list(t)})
    # trimming helpers
    ttasks = []
    for o in ORDERS + (1, 3, 5, 7, 10, 12):
        # (tensor fields: component axes first, the grid axes last)
        for shape in [(20,), (20, 18), (20, 18, 19), (17,), (17, 17, 17),
                      (3, 20, 18, 19), (3, 3, 17, 17, 17)]:
            ttasks.append((o, shape))
    # the helpers trim whatever the boundary mode of the object
    for o in ORDERS:
        for b in ('periodic', 'symmetric'):
            for shape in [(20,), (20, 18, 19), (3, 20, 18, 19)]:
                ttasks.append((o, shape, b))
    for t, r_ in zip(ttasks, runner.pmap(trim_case, ttasks, workers=4)):
        for bad in r_['bad']:
            run.violation(f"C16:trim:{bad[0]}", f"order={t[0]} "
                          f"shape={t[1]} {t[2:]}: {bad}",
                          {'kind': 'trim', 'task': [t[0], list(t[1])]})
    # consumers
    ctasks = []
    cN = range(3, 13) if tier == 'quick' else list(range(3, 25)) + [40]
    for axis in range(3):
        for N in cN:
            for mn in MINS:
                for d in SPACINGS:
                    ctasks.append((axis, N, mn, d))
    cres = runner.pmap(consumer_case, ctasks, chunksize=8)
    for t, r_ in zip(ctasks, cres):
        for bad in r_['bad']:
            run.violation(f"C16:consumer:{bad[0]}",
                          f"axis={'xyz'[t[0]]} N={t[1]} min={t[2]} "
                          f"d={t[3]}: {bad}",
                          {'kind': 'consumer', 'task': list(t)})
    run.sample({'grid': {'axis': 'x', 'N': 7, 'min': 0.1, 'spacing': 0.3},
                'expected': 'len(xarray)==7, xarray[i]=0.1+0.3 i'})
    run.sample({'attr tasks': [list(t) for t in tasks[100:103]]})
    run.assume("coordinates compared with min + i*spacing up to 2 ulp of "
               "the largest coordinate")
    return run.finish({
        'evaluations': len(tasks) + len(ttasks) + len(ctasks) + nrt,
        'distinct_nontrivial': len(run.distinct),
        'rule': "one case = one (axis, N, min, spacing, fd_order) grid; "
                "distinct = distinct (N, min, spacing); all are non-trivial "
                "(non-zero spacing, attributes compared with closed forms)",
        'grids': len(tasks), 'consumer_grids': len(ctasks),
        'trim_cases': len(ttasks), 'roundtrip_points': nrt,
        'exhaustive': True,
    })


def replay(rec):
    c = rec['case']
    if c.get('kind') == 'attr':
        r = attr_case(tuple(c['task']))
    elif c.get('kind') == 'consumer':
        r = consumer_case(tuple(c['task']))
    elif c.get('kind') == 'trim':
        r = trim_case((c['task'][0], tuple(c['task'][1])))
    else:
        print(rec)
        return 1
    print(r)
    return 1 if r['bad'] else 0
