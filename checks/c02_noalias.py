"""C02 - requests never modify user inputs or values already handed out.

E1 on the PLAIN AurelCore (no instrumentation): every request history up to a
depth; the harness keeps strong references to every input array and to every
object any request or helper call has returned, and re-digests all of them
after every transition.  Plus the argument objects of over_time, save_data
and read_data.
"""
import contextlib
import io
import os
import shutil

import numpy as np

from mc import explorer, runner
from checks import cachecommon as cc
from checks import grcommon as gc

PID = "C02"
_CFG = None


class System:
    def __init__(self):
        self.cfg = _CFG
        incfg, cconf, N, p, seed = self.cfg
        self.rel, self.inputs, self.F = cc.make_core(incfg, cconf, N, p,
                                                     seed)
        # (label, object, digest at hand-out)
        self.watch = [(f"input:{k}", v, cc.digest_value(v))
                      for k, v in self.inputs.items()]
        self.watch += [(f"helper-arg:{k}", v, cc.digest_value(v))
                       for k, v in self.F.items()]
        # the arrays of the grid object the user supplied (shared by every
        # instance built on it, and by all time steps of over_time)
        fd = self.rel.fd
        for a in ('x', 'y', 'z', 'r', 'theta', 'phi', 'cartesian_coords',
                  'spherical_coords', 'xarray', 'yarray', 'zarray'):
            if isinstance(getattr(fd, a, None), np.ndarray):
                self.watch.append((f"grid:{a}", getattr(fd, a),
                                   cc.digest_value(getattr(fd, a))))
        # option objects handed to the constructor
        for a in ('center', 'extract_radii'):
            obj = getattr(self.rel, a, None)
            if isinstance(obj, np.ndarray):
                self.watch.append((f"option:{a}", obj, cc.digest_value(obj)))
        self.last = None

    def canon(self):
        rel = self.rel
        ages = tuple(sorted(
            (k, rel.calculation_count - rel.last_accessed.get(k, -10 ** 6))
            for k in rel.data))
        return (ages, rel.calculation_count
                % rel.clear_cache_every_nbr_calc)

    def outcome(self):
        return self.last

    def apply(self, op, checked=True):
        viol = []
        try:
            v = cc.do_op(self.rel, op, self.F)
        except Exception as ex:     # noqa: BLE001
            self.last = ('raised',)
            if checked:
                viol.append((f"C02:request-raised:{type(ex).__name__}",
                             f"{self.cfg[:2]} {op}: {ex!r}"[:200]))
            return viol
        nbad = 0
        kept = []
        for label, obj, dg in self.watch:
            now = cc.digest_value(obj)
            if now != dg:
                nbad += 1
                if checked:
                    # which array and by how much is diagnosed in replay
                    viol.append((
                        f"C02:in-place:{label.split('@')[0]}",
                        f"{self.cfg[:2]}: request {op} changed "
                        f"{label} in place"))
                dg = now
            kept.append((label, obj, dg))
        self.watch = kept
        self.watch.append((f"{op}@{len(self.watch)}", v,
                           cc.digest_value(v)))
        self.last = ('ok', nbad > 0)
        return viol


def factory():
    return System()


# ---- argument objects of over_time / save_data / read_data ----------------
def quiet():
    return contextlib.redirect_stdout(io.StringIO())


def snapshot(obj):
    if isinstance(obj, dict):
        return ('dict', tuple((k, snapshot(v)) for k, v in obj.items()))
    if isinstance(obj, (list, tuple)):
        return (type(obj).__name__, tuple(snapshot(v) for v in obj))
    if isinstance(obj, np.ndarray):
        return ('arr', id(obj), runner.digest(obj))
    if callable(obj):
        return ('fn', id(obj))
    return ('val', repr(obj))


ALL_ESTS = ['max', 'mean', 'quartile1', 'median', 'quartile3', 'min', 'sum',
            'std', 'var', 'maxabs', 'minabs', 'meanabs', 'quartile1abs',
            'medianabs', 'quartile3abs', 'sumabs', 'stdabs', 'varabs',
            'x0y0z0', 'x0y0z1', 'x0y1z0', 'x0y1z1', 'x1y0z0', 'x1y0z1',
            'x1y1z0', 'x1y1z1']


def over_time_case(task):
    from aurel import time as atime
    from aurel.finitedifference import FiniteDifference
    from checks.c03_frozen import make_inputs
    nsteps, order, vars_, ests, kw = task
    bad = []
    shape = (4, 5, 6)
    steps = [make_inputs(shape, s) for s in range(nsteps)]
    param = steps[0][1]
    with quiet():
        fd = FiniteDifference(param, boundary='periodic', fd_order=2,
                              verbose=False)
    idx = list(range(nsteps))
    if order == 'reversed':
        idx = idx[::-1]
    table = {'it': [10 * i for i in idx]}
    for k in steps[0][0]:
        table[k] = [steps[i][0][k] for i in idx]

    def custom(rel):
        return rel['gammadet'] * rel['alpha']
    vars_l = [({'custom': custom} if v == '<custom>' else v) for v in vars_]
    ests_l = [({'first': (lambda a: a[0, 0, 0])} if e == '<custom>' else e)
              for e in ests]
    kw = dict(kw)
    objs = {'data': table, 'vars': vars_l, 'estimates': ests_l,
            'rel_kwargs': kw}
    before = {k: snapshot(v) for k, v in objs.items()}
    try:
        with quiet():
            out = atime.over_time(table, fd, vars=vars_l, estimates=ests_l,
                                  verbose=False, **kw)
    except Exception as ex:     # noqa: BLE001
        return [('raised', repr(ex)[:150])]
    for k, v in objs.items():
        if snapshot(v) != before[k]:
            bad.append(('argument-modified', k))
    # calling again on the returned table must not touch it either
    b2 = snapshot(out)
    try:
        with quiet():
            atime.over_time(out, fd, vars=['Ktrace'], estimates=['mean'],
                            verbose=False, **kw)
    except Exception as ex:     # noqa: BLE001
        return bad + [('raised-second', repr(ex)[:150])]
    if snapshot(out) != b2:
        bad.append(('argument-modified', 'returned-table'))
    return bad


def io_args_case(task):
    """save_data / read_data leave param, data, it, vars untouched."""
    from aurel import reading
    from checks import c13_saveread as c13
    ds, isel, vsel, rl, slash = task
    root = runner.scratch_root()
    bad = []
    try:
        noit = isinstance(ds, str)
        d = c13.make_dataset(int(ds[0]) if noit else ds)
        I = c13.it_selection(d, isel)
        if noit:           # data without an 'it' column (positional entries)
            I = list(range(len(I)))
            del d['it']
        V = {'itA': ['it', 'A'], 'tA': ['t', 'A'],
             'Ait': ['A', 'it']}.get(vsel) or c13.var_selection(vsel)
        if noit:
            V = [v for v in V if v != 'it']
        param = {'datapath': root + ('/s/' if slash else '/s')}
        objs = {'param': param, 'data': d, 'it': I, 'vars': V}
        before = {k: snapshot(v) for k, v in objs.items()}
        with quiet():
            reading.save_data(param, d, it=I, vars=V, rl=rl)
        for k, v in objs.items():
            if snapshot(v) != before[k]:
                bad.append(('save_data', k))
        J, W = list(I) + [99], list(V)
        objs = {'param': param, 'it': J, 'vars': W}
        before = {k: snapshot(v) for k, v in objs.items()}
        with quiet():
            reading.read_data(param, it=J, vars=W, rl=rl)
        for k, v in objs.items():
            if snapshot(v) != before[k]:
                bad.append(('read_data', k))
    except Exception as ex:      # noqa: BLE001
        bad.append(('raised', repr(ex)[:150]))
    finally:
        shutil.rmtree(root, ignore_errors=True)
    return bad


def et_args_case(task):
    """read_data / read_ET_data on an Einstein Toolkit directory leave param,
    it and vars untouched (vars=[] means 'all available')."""
    from aurel import reading
    from refs import etgen
    vsel, isel, split, restart, layout = task
    root = runner.scratch_root()
    bad = []
    try:
        shape = (5, 4, 6)
        bx = {0: etgen.tensor_boxes(shape, (2, 1, 1))}
        spec = {'simname': 'sim', 'grouped': layout[0], 'proc': layout[1],
                'ghost': 1, 'variables': ['alp', 'betax', 'betay', 'betaz',
                                          'gxx', 'gxy', 'gxz', 'gyy', 'gyz',
                                          'gzz', 'rho'],
                'shapes': {0: shape},
                'restarts': [{'its': {0: [0, 128, 256]}, 'boxes': bx},
                             {'its': {0: [256, 384]}, 'boxes': bx}]}
        param = etgen.write_sim(root, spec)
        V = {'empty': [], 'one': ['alpha'], 'tensor': ['betaup3', 'gxx'],
             'dup': ['betaup3', 'betax']}[vsel]
        I = {'two': [256, 0], 'one': [128], 'dup': [0, 384, 0]}[isel]
        for fn in (reading.read_data, reading.read_ET_data):
            objs = {'param': param, 'it': I, 'vars': V}
            before = {k: snapshot(v) for k, v in objs.items()}
            with quiet():
                fn(param, it=I, vars=V, restart=restart, split_per_it=split)
            for k, v in objs.items():
                if snapshot(v) != before[k]:
                    bad.append((fn.__name__, k))
    except Exception as ex:      # noqa: BLE001
        bad.append(('raised', repr(ex)[:150]))
    finally:
        shutil.rmtree(root, ignore_errors=True)
    return bad


def name_helper_cases():
    """The public name-translation helpers of the reading module leave the
    list they are given untouched (and so give the same answer twice)."""
    from aurel import reading
    bad = []
    lists = [['betax', 'betay', 'betaz', 'alp', 'gxx'],
             ['gxx', 'gxy', 'gxz', 'gyy', 'gyz', 'gzz', 'rho', 'vel[0]'],
             ['alpha', 'betaup3', 'gammadown3', 'rho0'], []]
    for fn in (reading.transform_vars_ET_to_aurel_groups,
               reading.transform_vars_aurel_to_ET,
               reading.transform_vars_tensor_to_scalar):
        for L in lists:
            arg = list(L)
            try:
                with quiet():
                    first = fn(arg)
                    first = list(first) if first is not None else None
                    again = fn(arg)
                    again = list(again) if again is not None else None
            except Exception as ex:      # noqa: BLE001
                bad.append((fn.__name__, 'raised', repr(ex)[:100]))
                continue
            if arg != L:
                bad.append((fn.__name__, 'argument-modified',
                            f'{L} -> {arg}'))
            elif sorted(map(str, first)) != sorted(map(str, again)):
                bad.append((fn.__name__, 'second-call-differs', str(L)))
    return bad


def two_thorn_case():
    """One variable name written by two thorns into the same file: the
    reader disambiguates by thorn, without rewriting its `variables`
    argument (a list from the caller, or the tuple key of the catalogue)."""
    import h5py
    from aurel import reading
    root = runner.scratch_root()
    bad = []
    try:
        os.makedirs(root, exist_ok=True)
        fname = os.path.join(root, 'gxx.h5')
        with h5py.File(fname, 'w') as f:
            for thorn, val in (('ADMBASE', 1.0), ('ML_BSSN', 2.0)):
                ds = f.create_dataset(f'{thorn}::gxx it=0 tl=0 rl=0',
                                      data=np.full((4, 4, 4), val))
                ds.attrs['cctk_nghostzones'] = np.array([1, 1, 1])
                ds.attrs['iorigin'] = np.array([0, 0, 0])
                ds.attrs['time'] = 0.0
        for variables in (['gxx'], ('gxx',)):
            before = list(variables)
            try:
                with quiet():
                    out = reading.read_ET_group_or_var(
                        variables, [fname], 'in file', it=[0])
            except Exception as ex:      # noqa: BLE001
                bad.append(('read_ET_group_or_var', 'raised:'
                            + type(variables).__name__, repr(ex)[:120]))
                continue
            if list(variables) != before:
                bad.append(('read_ET_group_or_var', 'argument-modified',
                            f'{before} -> {list(variables)}'))
            for k, val in (('ADMBASE::gxx', 1.0), ('ML_BSSN::gxx', 2.0)):
                if k not in out or not np.all(np.asarray(out[k][0]) == val):
                    bad.append(('read_ET_group_or_var', 'two-thorns', k))
    finally:
        shutil.rmtree(root, ignore_errors=True)
    return bad


def plans(tier, seed):
    keys = cc.all_keys()
    full = keys + cc.HELPERS
    red = cc.REDUCED + cc.HELPERS[:4]
    small = ['st_Riemann_down4', 'st_Weyl_down4', 'st_Riemann_uddd4',
             'gdown4', 'gammadown3', 'Kdown3', 'betaup3', 'Tdown4',
             's_Riemann_down3', 's_Ricci_down3', 'st_Ricci_down4',
             'Weyl_Psi', 'dtconserved', 'h:s_curl', 'h:Lie_dd']
    N, p = 6, 2
    P = []
    if tier == 'quick':
        P.append((('tensor', (20, 'never'), N, p, seed), full, 2))
        P.append((('fluid', (20, 'never'), N, p, seed), red, 2))
        P.append((('components', (3, 'mid'), N, p, seed), red, 2))
        P.append((('tensor', (2, 'mid'), N, p, seed), small, 3))
        P.append((('tensor_other', (20, 'never'), N, p, seed),
                  red + ['uup4', 'udown4', 'eweyl_u_down4', 'bweyl_u_down4',
                         'h:null_vector_base'], 2))
        # non-finite data (a NaN-masked point): helpers that 'clean' their
        # argument must not write through to arrays handed out earlier
        P.append((('excised', (20, 'never'), N, p, seed),
                  ['Weyl_Psi', 'Psi4_lm', 'st_Weyl_down4', 'Weyl_invariants',
                   'gammadet', 'Ktrace', 's_RicciS', 'Hamiltonian',
                   'gammaup3', 'Kretschmann', 'h:s_curl'], 2))
    else:
        P.append((('excised', (20, 'never'), N, p, seed), full, 2))
        for incfg in ('tensor', 'components', 'fluid', 'rho', 'partial',
                      'tensor_other'):
            for cconf in ((20, 'never'), (3, 'mid'), (1, 'always')):
                P.append(((incfg, cconf, N, p, seed), full, 2))
        P.append((('tensor', (20, 'never'), N, p, seed), red, 3))
        P.append((('components', (2, 'mid'), N, p, seed), small, 4))
    return P


def main(tier):
    global _CFG
    run = runner.Run(PID, tier, "model_checking")
    total = {'states': 0, 'transitions': 0, 'pruned': 0}
    per = {}
    for cfg, ops, depth in plans(tier, run.seed):
        _CFG = cfg
        cc.config_inputs(cfg[0], cfg[2], cfg[4])
        label = (f"{cfg[0]}/period={cfg[1][0]}/thr={cfg[1][1]}/"
                 f"ops={len(ops)}/depth={depth}")
        st = explorer.bfs(factory, ops, depth, run, label=label,
                          budget_s=900, group=16)
        per[label] = st
        for k in total:
            total[k] += st[k]
        run.note(f"{label}: {st}")
    # over_time argument objects
    ot = []
    for nsteps in (1, 2, 3):
        for order in ('sorted', 'reversed'):
            for vars_ in (['gammadet'], ['Ktrace', 's_RicciS'],
                          ['gdown4', '<custom>'], []):
                for ests in ([], ['max', 'mean'], ['<custom>'], ALL_ESTS):
                    if not vars_ and not ests:
                        continue
                    for kw in ({}, {'Lambda': 0.1,
                                    'clear_cache_every_nbr_calc': 2}):
                        ot.append((nsteps, order, vars_, ests, kw))
    for t, bad in zip(ot, runner.pmap(over_time_case, ot)):
        for b in bad:
            run.violation(f"C02:over_time:{b[0]}:{b[1] if b[0] == 'argument-modified' else ''}",
                          f"over_time{t}: {b}", {'over_time': list(t)})
    io = []
    for ds in (0, 1, 2, 3, '0-noit', '1-noit'):
        for isel in ('all', 'second'):
            for vsel in ('all', 'A', 'BA', 'itA', 'tA', 'Ait'):
                if vsel == 'tA' and ds == 3:
                    continue           # dataset 3 has no time column
                for slash in (True, False):
                    io.append((ds, isel, vsel, 0, slash))
    for t, bad in zip(io, runner.pmap(io_args_case, io)):
        for b in bad:
            run.violation(f"C02:{b[0]}:argument-modified:{b[1]}"
                          if b[0] != 'raised' else "C02:io-raised",
                          f"{t}: {b}", {'io': list(t)})
    et = [(vsel, isel, split, restart, layout)
          for vsel in ('empty', 'one', 'tensor', 'dup')
          for isel in ('two', 'one', 'dup')
          for split in (False, True) for restart in (-1, 0)
          for layout in ((False, False), (True, True))]
    for t, bad in zip(et, runner.pmap(et_args_case, et)):
        for b in bad:
            run.violation(f"C02:{b[0]}:argument-modified:{b[1]}"
                          if b[0] != 'raised' else "C02:et-io-raised",
                          f"Einstein Toolkit read {t}: {b}", {'et_io': list(t)})
    for b in runner.in_child(two_thorn_case):
        run.violation(f"C02:{b[0]}:{b[1]}", f"{b}"[:300],
                      {'two_thorn': b[1]})
    for b in runner.in_child(name_helper_cases):
        run.violation(f"C02:{b[0]}:{b[1]}", f"{b}"[:300],
                      {'name_helper': b[0]})
    run.sample({'history': ['st_Riemann_down4', 'st_Weyl_down4'],
                'watched': 'all inputs + every object returned so far, '
                           're-digested after each request'})
    run.assume("plain AurelCore (no recording subclass), inputs frozen")
    return run.finish({
        'states': total['states'], 'transitions': total['transitions'],
        'traces_validated_against_impl': total['transitions'],
        'histories_pruned': total['pruned'], 'per_plan': per,
        'over_time_argument_cases': len(ot),
        'io_argument_cases': len(io) + len(et),
        'rule': "state = (cached keys with ages, count mod period); "
                "transition = one real request; oracle = byte digests of "
                "all inputs and all objects handed out so far unchanged",
        'exhaustive': True,
    })


def replay(rec):
    global _CFG
    c = rec['case']
    if 'history_idx' not in c:
        if 'over_time' in c:
            print(over_time_case(tuple(c['over_time'])))
        elif 'io' in c:
            print(io_args_case(tuple(c['io'])))
        return 0
    for tier in ('quick', 'thorough'):
        for cfg, ops, depth in plans(tier, rec.get('seed', 0)):
            label = (f"{cfg[0]}/period={cfg[1][0]}/thr={cfg[1][1]}/"
                     f"ops={len(ops)}/depth={depth}")
            if label == c['label']:
                _CFG = cfg
                v = explorer.replay_history(factory, ops, c['history_idx'])
                return 1 if v else 0
    return 2
