"""C13 - save_data / read_data round trip in Aurel format.

E1: every sequence (depth <= D) of save_data calls over a menu of data
dictionaries / it / vars / rl selections, on the real files; after every
transition every probe read is compared with a plain-dict reference store
and the caller's arguments are digested before/after.
"""
import contextlib
import io
import os
import shutil

import h5py
import numpy as np

from mc import explorer, runner

PID = "C13"
SHAPE = (2, 3, 4)
VARS = ('A', 'B', 'T2')


def arr(ds, var, it, rl=0):
    """Injective content: encodes (dataset, variable, iteration)."""
    base = 1000.0 * (ds + 1) + 100.0 * VARS.index(var) + it + 0.001 * rl
    shp = SHAPE if var != 'T2' else (3,) + SHAPE
    return base + 0.01 * np.arange(int(np.prod(shp)), dtype=float).reshape(shp)


def make_dataset(ds):
    """Fresh caller-owned dictionaries (new objects every call)."""
    if ds == 0:       # sorted, contiguous
        its = [0, 1, 2]
        d = {'it': list(its), 't': [0.5 * i + ds for i in its]}
        for v in VARS:
            d[v] = [arr(ds, v, i) for i in its]
    elif ds == 1:     # unsorted, non-contiguous
        its = [3, 10, 7]
        d = {'it': np.array(its), 't': np.array([0.5 * i + ds for i in its])}
        for v in VARS:
            d[v] = [arr(ds, v, i) for i in its]
    elif ds == 2:     # ragged None entries (what read_data itself returns)
        its = [1, 2, 3]
        d = {'it': list(its), 't': [0.5 * i + ds for i in its]}
        d['A'] = [arr(ds, 'A', 1), None, arr(ds, 'A', 3)]
        d['B'] = [None, arr(ds, 'B', 2), arr(ds, 'B', 3)]
        d['T2'] = [arr(ds, 'T2', i) for i in its]
    elif ds == 4:     # other dtypes, same shapes and iterations as ds 0
        its = [0, 1, 2]
        d = {'it': list(its), 't': [int(3 + i) for i in its]}
        d['A'] = [(arr(ds, 'A', i) * 0 + 7 + i).astype(np.int64)
                  for i in its]
        d['B'] = [arr(ds, 'B', i).astype(np.float32) for i in its]
        d['T2'] = [(arr(ds, 'T2', i) % 3 == 0) for i in its]      # bool
    elif ds == 5:     # no 'it' column: entry k belongs to the k-th element
        #               of the `it` argument, in the caller's order
        d = {'t': [0.5 * k + ds for k in range(3)]}
        for v in VARS:
            d[v] = [arr(ds, v, k) for k in range(3)]
    else:             # a whole column None, no time column
        its = [0, 3]
        d = {'it': list(its)}
        d['A'] = [arr(ds, 'A', i) for i in its]
        d['B'] = None
        d['T2'] = [arr(ds, 'T2', i) for i in its]
    return d


IT_SELECT = ('all', 'second', 'last_first', 'dup', 'extra')
NOIT = {'all': [7, 3, 5], 'second': [3], 'last_first': [5, 7],
        'dup': [7, 5, 7], 'extra': [2, 9, 4]}      # for dataset 5
LEVELS = (0, 1, 12)        # 'rl=1' is a string prefix of 'rl=12'
VAR_SELECT = ('all', 'A', 'BA')


def it_selection(d, how):
    if 'it' not in d:
        return list(NOIT[how])
    its = [int(i) for i in d['it']]
    if how == 'extra':     # one iteration the dictionary does not contain
        return [its[1], 99]
    if how == 'all':
        return list(its)
    if how == 'second':
        return [its[1]]
    if how == 'last_first':
        return [its[-1], its[0]]
    return [its[0], its[-1], its[0]]


def var_selection(how):
    return {'all': [], 'A': ['A'], 'BA': ['B', 'A']}[how]


def ops_full():
    out = []
    for ds in range(6):
        for isel in IT_SELECT:
            for vsel in VAR_SELECT:
                for rl in LEVELS:
                    out.append(('save', ds, isel, vsel, rl))
    return out


def ops_reduced():
    out = []
    for ds in range(5):
        for isel in ('all', 'second', 'last_first'):
            for vsel, rl in (('all', 1), ('A', 0), ('BA', 12)):
                out.append(('save', ds, isel, vsel, rl))
    for isel in ('all', 'dup', 'last_first'):
        out.append(('save', 5, isel, 'all', 1))
    out.append(('save', 0, 'extra', 'A', 0))
    out.append(('save', 1, 'extra', 'all', 1))
    out.append(('read',))
    return out


def ops_small():
    out = []
    for ds in range(5):
        for isel in ('all', 'second'):
            for vsel, rl in (('all', 12), ('A', 1)):
                out.append(('save', ds, isel, vsel, rl))
    out += [('save', 5, 'all', 'A', 1), ('save', 5, 'dup', 'all', 12),
            ('save', 0, 'extra', 'A', 1), ('read',)]
    return out


def snapshot(obj):
    """Digest of a caller-owned argument (structure + bytes)."""
    if isinstance(obj, dict):
        return ('dict', tuple((k, snapshot(v)) for k, v in obj.items()))
    if isinstance(obj, list):
        return ('list', tuple(snapshot(v) for v in obj))
    if isinstance(obj, np.ndarray):
        return ('arr', runner.digest(obj))
    return ('val', repr(obj))


PROBE_ITS = ([0], [1, 2], [3, 10, 7, 5], [2, 0, 1, 3, 3])
PROBE_VARS = ([], ['A'], ['B', 'T2', 'Z'])
# requests naming the temporal columns themselves (probed on PROBE_ITS[1:3])
PROBE_VARS_T = (['t', 'A'], ['B', 'it'], ['it', 't'])


class System:
    def __init__(self, root, style):
        self.style = style
        self.dir = runner.scratch_root() if root is None else root
        if style == 'slash':
            self.param = {'datapath': self.dir + '/store/'}
            self.store = self.dir + '/store/'
        elif style == 'noslash':
            self.param = {'datapath': self.dir + '/store'}
            self.store = self.dir + '/store/'
        else:
            self.param = {'simulation': 'ET', 'simpath': self.dir + '/',
                          'simname': 'sim'}
            self.store = self.dir + '/sim/output-0000/sim/all_iterations/'
        self.model = {}
        self.last = None

    def close(self):
        shutil.rmtree(self.dir, ignore_errors=True)

    # ---- reference model -------------------------------------------------
    def model_save(self, d, I, V, rl):
        keys = list(d.keys()) if V == [] else list(V)
        for k in ('it', 't'):
            if k in d and k not in keys:
                keys.append(k)
        if 'it' in d:
            its = [int(i) for i in d['it']]
            pairs = [(iit, its.index(iit)) for iit in sorted(set(I))
                     if iit in its]     # absent iterations: nothing saved
        else:
            pairs = [(iit, pos) for pos, iit in enumerate(I)]
        for iit, pos in pairs:
            for k in keys:
                if d[k] is None:
                    continue
                val = d[k][pos]
                if val is None:
                    continue
                self.model[(iit, k, rl)] = np.array(val)

    def resync_model_from_disk(self):
        self.model = {}
        if not os.path.isdir(self.store):
            return
        for fn in os.listdir(self.store):
            if fn.startswith('it_') and fn.endswith('.hdf5'):
                iit = int(fn[3:-5])
                with h5py.File(self.store + fn, 'r') as f:
                    for k in f.keys():
                        v, r = k.rsplit(' rl=', 1)
                        self.model[(iit, v, int(r))] = np.array(f[k])

    # ---- transition --------------------------------------------------------
    def apply(self, op, checked=True):
        from aurel import reading
        if op[0] == 'read':
            # a read between two saves (also when replaying a prefix): what a
            # reader remembers about the directory must not outlive a save
            self.last = 'read'
            viol = self.check_probes(self.style)
            return viol if checked else []
        _, ds, isel, vsel, rl = op
        d = make_dataset(ds)
        I = it_selection(d, isel)
        V = var_selection(vsel)
        param = dict(self.param)
        viol = []
        before = (snapshot(d), snapshot(I), snapshot(V), snapshot(param))
        tag = f"{self.style}"
        try:
            with contextlib.redirect_stdout(io.StringIO()):
                if self.style == 'et':
                    reading.save_data(param, d, it=I, vars=V, rl=rl,
                                      restart=0)
                else:
                    reading.save_data(param, d, it=I, vars=V, rl=rl)
            self.model_save(make_dataset(ds), I, var_selection(vsel), rl)
            self.last = 'saved'
        except Exception as ex:      # noqa: BLE001
            kind = ('ragged-None' if ds == 2 else 'column-None' if ds == 3
                    else 'plain')
            viol.append((f"C13:save-raised:{kind}:{type(ex).__name__}",
                         f"save_data({op}) raised {ex!r}"[:300]))
            self.resync_model_from_disk()
            self.last = 'raised'
        after = (snapshot(d), snapshot(I), snapshot(V), snapshot(param))
        for name, b, a in zip(('data', 'it', 'vars', 'param'), before, after):
            if a != b:
                viol.append((f"C13:argument-modified:{name}",
                             f"save_data({op}) changed its '{name}' "
                             f"argument: {b} -> {a}"[:300]))
        if checked:
            viol += self.check_files(tag)
            viol += self.check_probes(tag)
        return viol

    # ---- oracles -----------------------------------------------------------
    def disk_content(self):
        out = {}
        if os.path.isdir(self.store):
            for fn in sorted(os.listdir(self.store)):
                if fn.startswith('it_') and fn.endswith('.hdf5'):
                    iit = int(fn[3:-5])
                    with h5py.File(self.store + fn, 'r') as f:
                        for k in f.keys():
                            v, r = k.rsplit(' rl=', 1)
                            out[(iit, v, int(r))] = np.array(f[k])
        return out

    def check_files(self, tag):
        viol = []
        disk = self.disk_content()
        for key in set(disk) | set(self.model):
            if key not in disk:
                viol.append((f"C13:file-missing-dataset:{tag}",
                             f"{key} saved but not on disk"))
            elif key not in self.model:
                viol.append((f"C13:file-unexpected-dataset:{tag}",
                             f"{key} on disk but never saved"))
            elif (disk[key].shape != self.model[key].shape
                  or disk[key].dtype != self.model[key].dtype
                  or not np.array_equal(disk[key], self.model[key])):
                viol.append((f"C13:file-wrong-data:{tag}",
                             f"dataset {key} holds "
                             f"{np.ravel(disk[key])[:1]} expected "
                             f"{np.ravel(self.model[key])[:1]} "
                             "(value encodes 1000*(ds+1)+100*var+it)"))
        return viol[:4]

    def check_probes(self, tag):
        from aurel import reading
        viol = []
        for rl in LEVELS:
            for J in PROBE_ITS:
                for W in PROBE_VARS + (PROBE_VARS_T if J in PROBE_ITS[1:3]
                                       else ()):
                    Jarg, Warg = list(J), list(W)
                    param = dict(self.param)
                    try:
                        with contextlib.redirect_stdout(io.StringIO()):
                            if self.style == 'et':
                                got = reading.read_aurel_data(
                                    param, it=Jarg, vars=Warg, rl=rl,
                                    restart=0)
                            else:
                                got = reading.read_data(
                                    param, it=Jarg, vars=Warg, rl=rl)
                    except Exception as ex:    # noqa: BLE001
                        viol.append((f"C13:read-raised:{tag}:"
                                     f"{type(ex).__name__}",
                                     f"read it={J} vars={W} rl={rl}: {ex!r}"
                                     [:300]))
                        continue
                    if Jarg != list(J) or Warg != list(W) \
                            or param != self.param:
                        viol.append((f"C13:argument-modified:read",
                                     f"read_data changed it/vars/param"))
                    sj = sorted(set(J))
                    if list(got.get('it', [])) != sj:
                        viol.append((f"C13:read-it-column:{tag}",
                                     f"it={J}: got {got.get('it')}"))
                    if W == []:
                        want = sorted({k[1] for k in self.model
                                       if k[0] in sj and k[2] == rl
                                       and k[1] != 'it'} | {'t'})
                    else:
                        want = sorted((set(W) | {'t'}) - {'it'})
                    have = sorted(k for k in got if k != 'it')
                    if have != want:
                        viol.append((f"C13:read-columns:{tag}",
                                     f"it={J} vars={W} rl={rl}: columns "
                                     f"{have} expected {want}"))
                        continue
                    for v in want:
                        col = got[v]
                        if len(col) != len(sj):
                            viol.append((f"C13:read-column-length:{tag}",
                                         f"it={J} vars={W} rl={rl}: {v} has "
                                         f"{len(col)} entries for "
                                         f"{len(sj)} iterations"))
                            continue
                        for j, val in zip(sj, col):
                            ref = self.model.get((j, v, rl))
                            if ref is None:
                                if val is not None:
                                    viol.append((
                                        f"C13:read-unexpected:{tag}",
                                        f"({j},{v},rl={rl}) never saved "
                                        f"but read {np.ravel(val)[:1]}"))
                            elif val is None:
                                viol.append((f"C13:read-missing:{tag}",
                                             f"({j},{v},rl={rl}) saved "
                                             "but read None"))
                            elif (np.shape(val) != ref.shape or
                                  np.asarray(val).dtype != ref.dtype or
                                  not np.array_equal(val, ref)):
                                viol.append((
                                    f"C13:read-wrong-data:{tag}",
                                    f"({j},{v},rl={rl}) read "
                                    f"{np.ravel(val)[:1]} expected "
                                    f"{np.ravel(ref)[:1]}"))
                    if len(viol) > 6:
                        return viol[:6]
        return viol

    def canon(self):
        disk = self.disk_content()
        # (whether the directory has been read since the last save is part of
        # the state: a reader may remember what it saw)
        return (tuple(sorted((k, runner.digest(v)) for k, v in disk.items())),
                self.last == 'read')

    def outcome(self):
        return (self.last, len(self.model))


_STYLE = 'slash'


def factory():
    return System(None, _STYLE)


def main(tier):
    global _STYLE
    run = runner.Run(PID, tier, "model_checking")
    total = {'states': 0, 'transitions': 0, 'pruned': 0}
    per = {}
    plans = []
    if tier == 'quick':
        quick_full = [o for o in ops_full()
                      if o[3] != 'BA' and o[2] != 'dup' and o[4] != 0]
        plans = [('slash', quick_full, 2), ('noslash', ops_reduced(), 2),
                 ('et', ops_reduced(), 2), ('slash', ops_small(), 3)]
    else:
        plans = [('slash', ops_full(), 2), ('noslash', ops_full(), 2),
                 ('et', ops_full(), 2), ('slash', ops_reduced(), 3),
                 ('noslash', ops_small(), 3), ('et', ops_small(), 3)]
    for style, ops, depth in plans:
        _STYLE = style
        st = explorer.bfs(factory, ops, depth, run,
                          label=f"{style}/ops={len(ops)}/depth={depth}",
                          budget_s=900 if tier == 'quick' else 3600)
        per[f"{style}:{len(ops)}ops:depth{depth}"] = st
        for k in total:
            total[k] += st[k]
        run.note(f"{style} ops={len(ops)} depth={depth}: {st}")
    run.sample({'history': [repr(ops_full()[5]), repr(ops_full()[40])],
                'probes': {'it': PROBE_ITS, 'vars': PROBE_VARS,
                           'rl': [0, 1]}})
    run.assume("an iteration passed to save_data that data['it'] does not "
               "contain saves nothing (reads back None); without an 'it' "
               "column entry k belongs to the k-th element of `it`")
    run.assume("reference semantics: array looked up by iteration VALUE in "
               "data['it']; None entries/columns skipped; later saves "
               "overwrite")
    nprobes = len(LEVELS) * len(PROBE_ITS) * len(PROBE_VARS)
    hs = runner.hashseed_children(PID, run) if tier == 'thorough' else []
    return run.finish({
        'hash_seed_children': hs,
        'states': total['states'], 'transitions': total['transitions'],
        'traces_validated_against_impl': total['transitions'],
        'histories_pruned': total['pruned'],
        'probes_per_transition': nprobes,
        'per_plan': per,
        'rule': "state = content of every it_*.hdf5 (dataset -> digest); "
                "transition = one real save_data call; after each, all "
                "probes + all files compared with the dict reference",
        'exhaustive': True,
    })


def replay(rec):
    global _STYLE
    c = rec['case']
    label = c['label']
    _STYLE = label.split('/')[0]
    nops = int(label.split('ops=')[1].split('/')[0])
    ops = {len(o): o for o in (ops_full(), ops_reduced(), ops_small(),
                               [o for o in ops_full()
                                if o[3] != 'BA' and o[2] != 'dup'
                                and o[4] != 0])
           }[nops]
    v = explorer.replay_history(factory, ops, c['history_idx'])
    return 1 if v else 0
