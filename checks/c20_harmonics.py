"""C20 - spin-weighted harmonics are orthonormal and sphere extraction inverts
synthesis.

E2: (a) orthonormality for every s in [-2,2] and every pair (l,m),(l',m')
with l,l' <= lmax by exact quadrature (Gauss-Legendre x uniform) - complete
for l <= lmax; (b) pointwise agreement with an independent construction (R6:
spin raising/lowering of sympy's ordinary harmonics), one global phase
convention; (c) analysis(synthesis(a)) = a for every unit coefficient set;
(d) trilinear interpolation exact on nodes and on the 8 trilinear monomials,
refuses outside points on each side of each axis; (e) Psi4_lm of an injected
pure mode returns that mode, converging with resolution.
"""
import contextlib
import io
import itertools

import numpy as np

from mc import runner
from refs import harmonics as H

PID = "C20"
SPINS = (-2, -1, 0, 1, 2)


def quiet():
    return contextlib.redirect_stdout(io.StringIO())


def modes(s, lmax):
    return [(l, m) for l in range(abs(s), lmax + 1)
            for m in range(-l, l + 1)]


def ortho_case(task):
    try:
        return _ortho_case(task)
    except Exception:      # noqa: BLE001
        import traceback
        return {'s': task[0], 'pairs': 1, 'bad': [((0, 0), (0, 0), 'raised: ' + traceback.format_exc()[-300:])], 'maxerr': float('inf')}


def _ortho_case(task):
    from aurel import maths
    s, lmax = task
    T, P, W, dphi = H.gauss_legendre_sphere(lmax + 4, 2 * lmax + 4)
    ms = modes(s, lmax)
    Y = np.array([maths.sYlm(s, l, m, T, P).ravel() for l, m in ms])
    w = (W * dphi).ravel()
    gram = (np.conj(Y) * w) @ Y.T
    err = np.abs(gram - np.eye(len(ms)))
    bad = []
    if not np.all(np.isfinite(gram)) or err.max() > 1e-11:
        i, j = np.unravel_index(np.argmax(err), err.shape)
        bad.append((ms[i], ms[j], complex(gram[i, j])))
    return {'s': s, 'pairs': len(ms) ** 2, 'bad': bad,
            'maxerr': float(err.max())}


def ref_case(task):
    try:
        return _ref_case(task)
    except Exception:      # noqa: BLE001
        import traceback
        return {'task': list(task), 'ratio': [float('nan'), 0.0], 'err': float('inf'), 'pole': float('inf')}


def _ref_case(task):
    from aurel import maths
    s, l, m = task
    T, P, W, dphi = H.gauss_legendre_sphere(9, 14)
    a = maths.sYlm(s, l, m, T, P)
    b = H.sYlm(s, l, m, T, P)
    k = int(np.argmax(np.abs(b)))
    ratio = a.ravel()[k] / b.ravel()[k]
    # the poles themselves (theta = 0 and pi exactly, as on a grid built with
    # linspace(0, pi, n)): finite, continuous, and of the closed-form size
    # sqrt((2l+1)/4pi) for m = -s (north) / m = s (south), zero otherwise
    ph = np.array([0.0, 0.7, 2.1, 4.0])
    pole = 0.0
    with np.errstate(all='ignore'):
        for th0, near, mm in ((0.0, 1e-7, -s), (np.pi, np.pi - 1e-7, s)):
            y0 = np.asarray(maths.sYlm(s, l, m, np.full(4, th0), ph))
            y1 = np.asarray(maths.sYlm(s, l, m, np.full(4, near), ph))
            size = np.sqrt((2 * l + 1) / (4 * np.pi)) if m == mm else 0.0
            if not np.all(np.isfinite(y0)):
                pole = float('inf')
            else:
                pole = max(pole, float(np.abs(y0 - y1).max()),
                           float(np.abs(np.abs(y0) - size).max()))
    return {'task': [s, l, m], 'ratio': [float(ratio.real),
                                         float(ratio.imag)],
            'err': float(np.abs(a - ratio * b).max()), 'pole': pole}


def synth_case(task):
    try:
        return _synth_case(task)
    except Exception:      # noqa: BLE001
        import traceback
        return {'s': task[0], 'sets': 1, 'bad': [('raised', traceback.format_exc()[-300:])]}


def _synth_case(task):
    from aurel import maths
    s, lmax = task
    T, P, W, dphi = H.gauss_legendre_sphere(lmax + 4, 2 * lmax + 4)
    ms = modes(s, lmax)
    allm = [(l, m) for l in range(lmax + 1) for m in range(-l, l + 1)]
    bad = []
    n = 0
    rng = np.random.RandomState(3)
    sets = [{k: (1.0 if k == one else 0.0) for k in allm} for one in ms]
    dense = {k: (complex(rng.randn(), rng.randn()) if k in ms else 0.0)
             for k in allm}
    sets.append(dense)
    # synthesis and analysis are linear: the same sets at very small and very
    # large amplitude (with a phase), and one set with a wide dynamic range
    wide = {k: (complex(rng.randn(), rng.randn()) * 10.0 ** (-3 * (i % 5))
                if k in ms else 0.0) for i, k in enumerate(allm)}
    sets.append(wide)
    # a coefficient set holding exactly the modes that exist (|s| <= l)
    sets.append({k: dense[k] for k in ms})
    scaled = []
    for amp in (1e-10 * (0.6 + 0.8j), 1e8):
        for a in sets:
            scaled.append((amp, {k: v * amp for k, v in a.items()}))
    for amp, a in [(1.0, a) for a in sets] + scaled:
        a0 = dict(a)
        f = maths.sYlm_reconstruct(s, lmax, a, T, P)
        c = maths.sYlm_coefficients(s, lmax, f, T, P, W, dphi)
        n += 1
        if a != a0:
            bad.append(('argument-modified',))
        for k in allm:
            want = a0.get(k, 0.0) if k in ms else 0.0
            if not abs(c[k] - want) <= 1e-11 * abs(amp):
                bad.append(('coefficient', k, complex(c[k]), want))
                break
        if set(c) != set(allm):
            bad.append(('keys',))
    return {'s': s, 'sets': n, 'bad': bad[:3]}


def interp_cases(run):
    from aurel import numerical
    n = 0
    gx = np.array([-1.0, -0.2, 0.5, 1.7, 2.0])
    gy = np.array([0.0, 0.4, 1.1, 1.5])
    gz = np.array([-3.0, -2.5, -1.6, -1.0])
    GX, GY, GZ = np.meshgrid(gx, gy, gz, indexing='ij')
    # exact at every node and for every trilinear monomial
    rng = np.random.RandomState(0)
    tx = rng.uniform(-1, 2, (3, 4))
    ty = rng.uniform(0, 1.5, (3, 4))
    tz = rng.uniform(-3, -1, (3, 4))
    for ex in itertools.product((0, 1), repeat=3):
        f = lambda x, y, z: (x ** ex[0]) * (y ** ex[1]) * (z ** ex[2]) \
            * 0.7 + 0.1     # noqa: E731
        val = f(GX, GY, GZ)
        v0 = val.copy()
        out = numerical.interpolate(val, (gx, gy, gz), (tx, ty, tz),
                                    method='linear')
        n += 1
        if out.shape != tx.shape or np.abs(out - f(tx, ty, tz)).max() > 1e-12:
            run.violation("C20:interpolate:trilinear-not-exact",
                          f"monomial exponents {ex}", {'ex': list(ex)})
        out = numerical.interpolate(val, (gx, gy, gz), (GX, GY, GZ))
        n += 1
        if np.abs(out - val).max() > 1e-12:
            run.violation("C20:interpolate:not-exact-at-nodes", str(ex), {})
        if not np.array_equal(val, v0):
            run.violation("C20:interpolate:argument-modified", str(ex), {})
    # the memory layout of the target arrays is not part of their meaning:
    # Fortran-ordered, transposed and strided targets give the values of
    # the same points at the same positions
    val = 0.3 + 0.7 * GX - 0.2 * GY * GZ + 0.1 * GX * GY * GZ
    want = 0.3 + 0.7 * tx - 0.2 * ty * tz + 0.1 * tx * ty * tz
    variants = {
        'fortran': tuple(np.asfortranarray(a) for a in (tx, ty, tz)),
        'transposed-view': tuple(np.ascontiguousarray(a.T).T
                                 for a in (tx, ty, tz)),
        'strided': tuple(np.repeat(a, 2, axis=1)[:, ::2]
                         for a in (tx, ty, tz))}
    for name, tgt in variants.items():
        out = numerical.interpolate(val, (gx, gy, gz), tgt, method='linear')
        n += 1
        if out.shape != tx.shape or not np.abs(out - want).max() <= 1e-12:
            run.violation(f"C20:interpolate:target-layout:{name}",
                          f"max error {np.abs(out - want).max():.2e} for "
                          f"{name} target arrays", {})
    val = np.sin(GX) * GY + GZ
    for axis, side in itertools.product(range(3), (-1, 1)):
        pt = [np.array([0.3]), np.array([0.7]), np.array([-2.0])]
        g = (gx, gy, gz)[axis]
        pt[axis] = np.array([g.min() - 1e-9 if side < 0 else g.max() + 1e-9])
        n += 1
        try:
            numerical.interpolate(val, (gx, gy, gz), tuple(pt))
            run.violation("C20:interpolate:accepts-outside",
                          f"axis {axis} side {side}", {})
        except ValueError:
            pass
        pt[axis] = np.array([g.min() if side < 0 else g.max()])
        n += 1
        try:
            r = numerical.interpolate(val, (gx, gy, gz), tuple(pt))
            if not np.all(np.isfinite(r)):
                run.violation("C20:interpolate:boundary-nan", "", {})
        except Exception as ex_:     # noqa: BLE001
            run.violation("C20:interpolate:refuses-boundary",
                          f"axis {axis} side {side}: {ex_!r}"[:200], {})
    # a set of targets of which only some lie outside (a sphere displaced
    # towards one face): refused as well, on either side of every axis
    for axis, side in itertools.product(range(3), (-1, 1)):
        pts = [np.array([0.3, 0.6, 1.0]), np.array([0.7, 0.2, 1.0]),
               np.array([-2.0, -1.5, -2.8])]
        g = (gx, gy, gz)[axis]
        pts[axis] = pts[axis].copy()
        pts[axis][1] = g.min() - 0.05 if side < 0 else g.max() + 0.05
        n += 1
        try:
            numerical.interpolate(val, (gx, gy, gz), tuple(pts))
            run.violation("C20:interpolate:accepts-partly-outside",
                          f"axis {axis} side {side}", {})
        except ValueError:
            pass
    from scipy.interpolate import RegularGridInterpolator
    for method in ('linear', 'nearest', 'slinear', 'cubic', 'pchip'):
        r = numerical.interpolate(val, (gx, gy, gz), (tx, ty, tz),
                                  method=method)
        n += 1
        if r.shape != tx.shape or not np.all(np.isfinite(r)):
            run.violation(f"C20:interpolate:method-{method}", "", {})
            continue
        # every method interpolates: exact at the nodes; and equal to a
        # direct call of the documented scipy interpolator
        rn = numerical.interpolate(val, (gx, gy, gz), (GX, GY, GZ),
                                   method=method)
        ref = RegularGridInterpolator((gx, gy, gz), val, method=method)(
            np.stack([tx, ty, tz], axis=-1))
        n += 2
        if np.abs(rn - val).max() > 1e-10:
            run.violation(f"C20:interpolate:method-{method}:nodes",
                          f"{np.abs(rn - val).max():.2e}", {})
        if np.abs(r - ref).max() > (1e-4 if method == 'cubic' else 1e-12):
            # (scipy's default spline solver is iterative, absolute
            # tolerance 1e-6: the direct call itself is only that accurate)
            run.violation(f"C20:interpolate:method-{method}:vs-scipy",
                          f"{np.abs(r - ref).max():.2e}", {})
        # interpolation is linear in the field: a field of amplitude 1e-9
        # gives 1e-9 times the result (a solver with an absolute tolerance
        # returns zeros instead)
        rs = numerical.interpolate(1e-9 * val, (gx, gy, gz), (tx, ty, tz),
                                   method=method)
        n += 1
        if not np.abs(rs / 1e-9 - r).max() <= 1e-9 * np.abs(val).max():
            run.violation(f"C20:interpolate:method-{method}:amplitude",
                          f"field scaled by 1e-9: result/1e-9 differs by "
                          f"{np.abs(rs / 1e-9 - r).max():.2e}", {})
        try:
            numerical.interpolate(val, (gx, gy, gz), (
                np.array([2.0 + 1e-9]), np.array([0.7]), np.array([-2.0])),
                method=method)
            run.violation(f"C20:interpolate:method-{method}:accepts-outside",
                          "", {})
        except ValueError:
            pass
    return n


def psi4_case(task):
    """Inject Psi4 = f(r) * -2Y_lm and extract."""
    from aurel.core import AurelCore
    from aurel.finitedifference import FiniteDifference
    l, m, centre, Ns = task
    Lbox = 4.0
    radii = [1.5, 2.5]
    f = lambda r: r ** 2 / (1 + 0.3 * r ** 2)     # noqa: E731
    errs = []
    for N in Ns:
        d = 2 * Lbox / (N - 1)
        param = {'Nx': N, 'Ny': N, 'Nz': N, 'xmin': -Lbox, 'ymin': -Lbox,
                 'zmin': -Lbox, 'dx': d, 'dy': d, 'dz': d}
        with quiet():
            fd = FiniteDifference(param, boundary='no boundary', fd_order=4,
                                  verbose=False)
            rel = AurelCore(fd, verbose=False, lmax=4, center=centre,
                            extract_radii=radii)
        x = -Lbox + np.arange(N) * d
        X, Y, Z = np.meshgrid(x, x, x, indexing='ij')
        xr, yr, zr = X - centre[0], Y - centre[1], Z - centre[2]
        r = np.sqrt(xr ** 2 + yr ** 2 + zr ** 2)
        th = np.arccos(np.divide(zr, r, out=np.zeros_like(r), where=r > 0))
        ph = np.arctan2(yr, xr)
        psi = f(r) * H.sYlm(-2, l, m, th, ph) * ((-1) ** m)
        psi = np.where(r > 0, psi, 0.0)
        rel.data['Weyl_Psi4r'] = np.real(psi).copy()
        rel.data['Weyl_Psi4i'] = np.imag(psi).copy()
        rel.freeze_data()
        try:
            with quiet():
                out = rel['Psi4_lm']
        except Exception as ex:      # noqa: BLE001
            # all radii are inside the grid: extraction must not raise
            return {'task': [l, m, list(centre), list(Ns)],
                    'errs': [float('inf')] * len(Ns),
                    'raised': f"N={N}: {ex!r}"[:200]}
        worst = 0.0
        for R in radii:
            c = out[R]
            for (ll, mm), v in c.items():
                want = f(R) if (ll, mm) == (l, m) else 0.0
                worst = max(worst, abs(v - want) / f(R))
        errs.append(worst)
        if N == Ns[0]:
            # lmax, center, extract_radii are documented as 'also
            # attribute': assigned after construction they give the same
            # decomposition
            with quiet():
                rel2 = AurelCore(fd, verbose=False)
                rel2.lmax, rel2.center, rel2.extract_radii = 4, centre, radii
                rel2.data['Weyl_Psi4r'] = np.real(psi).copy()
                rel2.data['Weyl_Psi4i'] = np.imag(psi).copy()
                rel2.freeze_data()
                try:
                    out2 = rel2['Psi4_lm']
                    same = (sorted(out2) == sorted(out) and all(
                        out2[R].keys() == out[R].keys() and all(
                            abs(out2[R][k] - out[R][k]) <= 1e-12 * f(R)
                            for k in out[R]) for R in out))
                except Exception as ex:      # noqa: BLE001
                    same = False
            if not same:
                return {'task': [l, m, list(centre), list(Ns)],
                        'errs': [float('inf')] * len(Ns),
                        'raised': "options assigned as attributes after "
                                  "construction give a different Psi4_lm"}
    return {'task': [l, m, list(centre), list(Ns)], 'errs': errs}


def high_degree_case(task):
    """Normalisation of single harmonics at degrees far above the default
    lmax = 8 (lmax is an unrestricted option): exact Gauss-Legendre
    quadrature, |<Y|Y> - 1|."""
    from aurel import maths
    s, l, m = task
    try:
        T, P, W, dphi = H.gauss_legendre_sphere(l + 8, 2 * l + 8)
        with np.errstate(all='ignore'):
            y = maths.sYlm(s, l, m, T, P)
            e = abs(float(np.sum(np.abs(y) ** 2 * W * dphi)) - 1.0)
        return {'task': [s, l, m], 'err': e if np.isfinite(e)
                else float('inf')}
    except Exception as ex:      # noqa: BLE001
        return {'task': [s, l, m], 'err': float('inf'),
                'raised': repr(ex)[:100]}


def psi4_alias_case(task):
    """Azimuthal content on small grids with lmax + 1 > min(N): a field that
    is trilinear in (x, y, z) is interpolated exactly, so a field of a single
    azimuthal order m must leave every other order empty (no aliasing from
    an angular grid that does not grow with lmax)."""
    try:
        return _psi4_alias_case(task)
    except Exception:      # noqa: BLE001
        import traceback
        return {'task': list(task[:1]), 'bad': [('raised',
                traceback.format_exc()[-300:])]}


def _psi4_alias_case(task):
    from aurel.core import AurelCore
    from aurel.finitedifference import FiniteDifference
    name, shape, centre, lmax, radius = task
    param = {'Nx': shape[0], 'Ny': shape[1], 'Nz': shape[2], 'xmin': -2.0,
             'ymin': -2.0, 'zmin': -2.0, 'dx': 4.0 / (shape[0] - 1),
             'dy': 4.0 / (shape[1] - 1), 'dz': 4.0 / (shape[2] - 1)}
    with quiet():
        fd = FiniteDifference(param, boundary='no boundary', fd_order=2,
                              verbose=False)
        rel = AurelCore(fd, verbose=False, lmax=lmax, center=centre,
                        extract_radii=[radius])
    X, Y, Z = fd.x - centre[0], fd.y - centre[1], fd.z - centre[2]
    if name == 'x+iy':          # azimuthal order +1 only
        psi, allowed = X + 1j * Y, {1}
    else:                       # 'xy': orders +2 and -2 only
        psi, allowed = X * Y + 0j, {2, -2}
    rel.data['Weyl_Psi4r'] = np.real(psi).copy()
    rel.data['Weyl_Psi4i'] = np.imag(psi).copy()
    rel.freeze_data()
    with quiet():
        out = rel['Psi4_lm']
    c = out[radius]
    big = max(abs(v) for v in c.values())
    worst, where = 0.0, None
    for (l, m), v in c.items():
        if m not in allowed and abs(v) > worst:
            worst, where = abs(v), (l, m)
    bad = []
    if not (big > 1e-3 and worst <= 1e-9 * big):
        bad.append(('azimuthal-aliasing', name, list(shape), lmax,
                    f'|a{where}| = {worst:.2e}, largest allowed mode '
                    f'{big:.2e}'))
    return {'task': [name, list(shape), lmax], 'bad': bad}


def main(tier):
    run = runner.Run(PID, tier, "exploration")
    H.selftest()
    lmax = 12 if tier == 'quick' else 20
    total = 0
    # (a) orthonormality, complete for l <= lmax
    for r in runner.pmap(ortho_case, [(s, lmax) for s in SPINS], workers=5):
        total += r['pairs']
        run.count('orthonormality_pairs', r['pairs'])
        for b in r['bad']:
            run.violation(f"C20:orthonormality:s={r['s']}",
                          f"<{b[0]}|{b[1]}> = {b[2]} for spin {r['s']}",
                          {'s': r['s'], 'pair': [list(b[0]), list(b[1])]})
    # (b) independent construction, one phase convention
    lref = 4 if tier == 'quick' else 6
    rtasks = [(s, l, m) for s in SPINS for l, m in modes(s, lref)]
    rres = runner.pmap(ref_case, rtasks)
    conv = None
    for t, r in zip(rtasks, rres):
        if tuple(t) == (0, 1, 1):
            conv = r['ratio']
    if conv is None or abs(abs(complex(*conv)) - 1) > 1e-9:
        run.violation("C20:convention:undetermined", str(conv), {})
        conv = [1.0, 0.0]
    # convention c(m) with c(1) = conv: either 1 or (-1)^m (documented
    # absence of the Condon-Shortley phase); the same for every s, l
    for t, r in zip(rtasks, rres):
        total += 1
        s, l, m = t
        want = complex(*conv) ** abs(m) if abs(complex(*conv) + 1) < 1e-9 \
            else complex(*conv)
        got = complex(*r['ratio'])
        if abs(got - want) > 1e-9 or r['err'] > 1e-10:
            run.violation(f"C20:sYlm-vs-reference:s={s}",
                          f"sYlm({s},{l},{m}) / reference = {got} (expected "
                          f"{want} from the convention fixed at (0,1,1)), "
                          f"residual {r['err']:.2e}",
                          {'s': s, 'l': l, 'm': m})
        if not r.get('pole', float('inf')) <= 1e-5:
            run.violation(f"C20:sYlm-at-poles:s={s}",
                          f"sYlm({s},{l},{m}) at theta = 0 or pi exactly: "
                          f"not finite / discontinuous / wrong size "
                          f"({r.get('pole')})", {'s': s, 'l': l, 'm': m})
    hd = [(sw, l, m) for l in (24, 32, 48) for sw in (-2, 0, 1)
          for m in (0, l // 2, l)]
    for r in runner.pmap(high_degree_case, hd, workers=8):
        total += 1
        sw, l, m = r['task']
        run.seen(('high-degree', sw, l, m))
        if not r['err'] <= 1e-9:
            run.violation(f"C20:high-degree-norm:s={sw}:l={l}:m={m}",
                          f"sYlm({sw},{l},{m}) has norm 1 + {r['err']:.2e} "
                          "(exact quadrature): the alternating sum loses "
                          "about 0.3 l digits", {'high_degree': r['task']})
    alias = [('x+iy', (6, 6, 6), (0.0, 0.0, 0.0), 12, 1.5),
             ('xy', (10, 6, 8), (0.2, -0.1, 0.3), 11, 1.2),
             ('x+iy', (6, 6, 6), (0.0, 0.0, 0.0), 4, 1.5),
             ('xy', (5, 7, 6), (0.0, 0.0, 0.0), 8, 1.0)]
    for r in runner.pmap(psi4_alias_case, alias, workers=4):
        total += 1
        run.seen(('alias',) + tuple(map(str, r['task'])))
        for b in r['bad']:
            run.violation(f"C20:Psi4_lm:{b[0]}", f"{b}"[:400],
                          {'alias': r['task']})
    # (c) analysis o synthesis = identity on every unit coefficient set
    for r in runner.pmap(synth_case, [(s, 6) for s in SPINS], workers=5):
        total += r['sets']
        for b in r['bad']:
            run.violation(f"C20:synthesis-analysis:s={r['s']}:{b[0]}",
                          str(b)[:300], {'s': r['s']})
    # (d) interpolation
    total += runner.guard(run, 'C20:interpolate:raised', interp_cases,
                          run)
    # (e) Psi4_lm of an injected pure mode
    ptasks = []
    Ns = (24, 48)
    for l in (2, 3, 4):
        for m in range(-l, l + 1):
            if tier == 'quick' and (l + m) % 2 and l > 2:
                continue
            ptasks.append((l, m, (0.0, 0.0, 0.0), Ns))
    ptasks.append((2, 2, (0.3, -0.2, 0.25), Ns))
    ptasks.append((3, -1, (0.3, -0.2, 0.25), Ns))
    worst = 0.0
    for t, r in zip(ptasks, runner.pmap(psi4_case, ptasks)):
        total += 1
        e_lo, e_hi = r['errs']
        worst = max(worst, e_hi)
        if not (np.isfinite(e_hi) and e_hi < 0.6 * e_lo and e_hi < 0.1):
            run.violation(
                f"C20:Psi4_lm:mode-not-recovered",
                f"injected (l,m)=({t[0]},{t[1]}) centre={t[2]}: relative "
                f"error {e_lo:.3e} at N=24, {e_hi:.3e} at N=48 "
                f"{r.get('raised', '')}",
                {'psi4': [t[0], t[1], list(t[2])]})
    run.note(f"Psi4_lm worst relative error at N=48: {worst:.3e}")
    run.sample({'orthonormality': 'all pairs (l,m),(l\',m\') with l<=8, '
                's in [-2,2], 12x20 Gauss-Legendre x uniform nodes'})
    run.sample({'injected mode': [2, 2], 'centre': [0.3, -0.2, 0.25],
                'radii': [1.5, 2.5], 'grids': [24, 48]})
    run.assume("phase convention fixed at (s,l,m)=(0,1,1) and required for "
               "all s, l, m (aurel omits the Condon-Shortley phase)")
    run.assume("Psi4_lm uses a midpoint rule in theta and linear "
               "interpolation: a decrease by >= 1/0.6 per doubling and a 10% bound "
               "at N=48 are required")
    return run.finish({
        'evaluations': total,
        'distinct_nontrivial': total,
        'rule': "orthonormality: one case per ordered pair of modes per "
                "spin; reference: one case per (s,l,m); synthesis: one case "
                "per unit coefficient set; interpolation: one case per "
                "monomial / side / method; Psi4_lm: one case per injected "
                "mode and centre.  All distinct by construction.",
        'lmax_orthonormality': lmax, 'lmax_reference': lref,
        'psi4_modes': len(ptasks), 'exhaustive': True,
    })


def replay(rec):
    c = rec['case']
    if 'psi4' in c:
        l, m, centre = c['psi4']
        print(psi4_case((l, m, tuple(centre), (24, 48))))
    elif 'l' in c:
        print(ref_case((c['s'], c['l'], c['m'])))
    elif 'pair' in c:
        print(ortho_case((c['s'], 8)))
    else:
        print(c)
    return 0
