"""C06 - on exact solutions constraints vanish and dt-quantities equal true
t-derivatives.  E2 over the spacetime lattice (every smooth metric is an exact
solution for T := (G + Lambda g)/kappa); oracle = exact d_t from jets (R1).
"""
import numpy as np

from mc import runner
from refs import fields, gr
from checks import grcommon as gc

PID = "C06"
DTKEYS = {'dtKtrace': 'dtKtrace', 'dtphi_bssnok': 'dtphi',
          'dtgammaup3': 'dtgammaup', 'dtgammadown3_bssnok': 'dtgt',
          'dtAdown3_bssnok': 'dtAt', 'dts_Gamma_bssnok': 'dtGt'}
VALKEYS = {'Ktrace': 'Ktrace', 'phi_bssnok': 'phi', 'gammaup3': 'gammaup',
           'gammadown3_bssnok': 'gt', 'Adown3_bssnok': 'At',
           's_Gamma_bssnok': 'Gt', 'gammaup3_bssnok': 'gtup'}
ALG = ('Ktrace', 'phi_bssnok', 'gammaup3', 'gammadown3_bssnok',
       'Adown3_bssnok', 'gammaup3_bssnok', 'rho_n', 'fluxup3_n')
CONSTRAINTS = ('Hamiltonian', 'Momentumup3', 'Momentumdown3', 'Momentumx',
               'Momentumy', 'Momentumz')


def ref_fn(r):
    b = r.bssn()
    c = r.curvature4()
    sp = r.spatial()
    nup, _ = r.normal()
    T = c['Tdown4']
    rho = np.einsum('ab...,a...,b...->...', T, nup, nup)
    gu4 = np.zeros_like(T)
    gu4[1:, 1:] = b['gammaup']
    flux = -np.einsum('ab...,bc...,c...->a...', gu4, T, nup)[1:]
    out = {k: b[v] for k, v in DTKEYS.items()}
    out.update({k: b[v] for k, v in VALKEYS.items()})
    out['rho_n'] = rho
    out['fluxup3_n'] = flux
    KK = np.einsum('ij...,kl...,ik...,jl...->...', b['K'], b['K'],
                   b['gammaup'], b['gammaup'])
    Tmax = gr.KAPPA * np.abs(T).max(axis=(0, 1))
    out['_hamscale'] = (np.abs(sp['RicciS']) + b['Ktrace'] ** 2 + np.abs(KK)
                        + 2 * Tmax + 2 * abs(r.Lambda))
    gK = np.abs(b['K']).max(axis=(0, 1))
    out['_Kmax'] = gK
    # magnitude of the terms that build d_t K (their sum may nearly cancel)
    out['_dtKscale'] = (np.abs(r.alpha.h[1:, 1:]).max(axis=(0, 1))
                        + np.abs(sp['Gamma']).max(axis=(0, 1, 2))
                        * np.abs(r.alpha.g[1:]).max(axis=0)
                        + np.abs(r.alpha.v) * (9 * gK ** 2 + Tmax
                                               + abs(r.Lambda)))
    out['_momscale'] = (np.abs(b['dK']).max(axis=(0, 1, 2))
                        + Tmax
                        + np.abs(b['K']).max(axis=(0, 1))
                        * np.abs(sp['Gamma']).max(axis=(0, 1, 2)))
    return out


ALLKEYS = list(DTKEYS) + list(VALKEYS) + ['rho_n', 'fluxup3_n'] \
    + list(CONSTRAINTS)


def ref_scale_table(ref, box):
    """{key: (reference array, scale of the error, size of the reference)}
    for every key the check requests."""
    hs = max(float(ref['_hamscale'].max()), 1e-6)
    ms = max(float(ref['_momscale'].max())
             + float(np.abs(ref['Ktrace']).max()) / box, 1e-6)
    out = {}
    for k in list(DTKEYS) + list(VALKEYS) + ['rho_n', 'fluxup3_n']:
        rmax = float(np.abs(ref[k]).max())
        # scale of a dt-quantity: the larger of its own size and the size of
        # the terms that build it
        sc = max(rmax, 1e-2 if (k in DTKEYS or k == 's_Gamma_bssnok')
                 else 1e-12)
        if k == 'dtKtrace':
            sc = max(sc, float(ref['_dtKscale'].max()))
        if k in ('Adown3_bssnok', 'Ktrace'):
            # A = 0 exactly for pure-trace K: judge on |K|
            sc = max(sc, 1e-3 * float(ref['_Kmax'].max()))
        out[k] = (ref[k], sc, rmax)
    for k in CONSTRAINTS:
        sc = hs if k == 'Hamiltonian' else ms
        out[k] = (None, sc, sc)         # reference None: zero
    return out


def case(task):
    desc, p, vacuum, Ns, seed = task
    res = {'task': [list(desc), p, vacuum, list(Ns)], 'err': {},
           'refmax': {}, 'raised': None}
    gc.set_trim(desc, p)
    try:
        for N in Ns:
            rel, st, (X, Y, Z), inp = gc.build_core(
                desc, seed, p, N, with_T=True, vacuum=vacuum)
            ref = gc.ref_chunks(st, fields.T0, X, Y, Z, ref_fn)
            table = ref_scale_table(ref, N * rel.param['dx'])
            fwd = {}
            with gc.quiet():
                for k in ALLKEYS:
                    val = rel[k]
                    fwd[k] = np.array(val, copy=True)
                    refk, sc, rmax = table[k]
                    res['err'].setdefault(k, []).append(gc.err(
                        val, np.zeros_like(val) if refk is None else refk,
                        sc))
                    res['refmax'][k] = rmax
            if N == Ns[0]:
                res['order'] = gc.order_dependence(
                    desc, seed, p, N, list(fwd), fwd, with_T=True,
                    vacuum=vacuum)
                res['style'] = gc.input_style_dependence(
                    desc, seed, p, N, list(fwd), fwd, with_T=True, vacuum=vacuum)
                if st.Lambda != 0:
                    res['lamattr'] = gc.lambda_attribute_dependence(
                        desc, seed, p, N, list(fwd), fwd, with_T=True,
                        vacuum=vacuum)
        def ref_scale(N):
            rel, st, (X, Y, Z), inp = gc.build_core(
                desc, seed, p, N, with_T=True, vacuum=vacuum)
            ref = gc.ref_chunks(st, fields.T0, X, Y, Z, ref_fn)
            return {k: v[:2] for k, v in ref_scale_table(
                ref, N * rel.param['dx']).items()}
        # a variant that differs from the forward values is judged against
        # the reference like them (grcommon.alt_errors)
        gc.alt_errors(res, desc, seed, p, Ns, ALLKEYS, ref_scale,
                      with_T=True, vacuum=vacuum)
    except Exception:      # noqa: BLE001
        import traceback
        res['raised'] = traceback.format_exc()[-600:]
    return res


def build_tasks(tier, seed):
    tasks = []
    corners = fields.quick_corners()
    if tier == 'quick':
        for i, c in enumerate(corners):
            lam = 0.3 if i % 2 == 0 else 0.0
            tasks.append((('lattice',) + c + (lam,), 8, False, (16, 32),
                          seed))
        for p in (2, 4, 6):
            tasks.append((('lattice', 'L2', 'S3', 'G2', 'D1', 0.3), p, False,
                          (16, 32), seed))
        tasks.append((('lattice', 'L1', 'S2', 'G1', 'D1', 0.0), 8, False,
                      (16, 32), seed))
    else:
        for c in fields.full_lattice():
            for lam in (0.0, 0.3):
                tasks.append((('lattice',) + c + (lam,), 8, False, (16, 32),
                              seed))
        for c in corners:
            for p in (2, 4, 6):
                tasks.append((('lattice',) + c + (0.3,), p, False, (16, 32),
                              seed))
    tasks.append((('scaled', 0.02, 'L2', 'S3', 'G2', 'D1', 0.3), 8, False,
                  (16, 32), seed))
    tasks.append((('scaled', 30.0, 'L1', 'S2', 'G2', 'D1', 0.0), 4, False,
                  (16, 32), seed))
    for p in ((8,) if tier == 'quick' else (4, 8)):
        tasks.append((('mink',), p, False, (16, 32), seed))
        tasks.append((('mink',), p, True, (16, 32), seed))
    tasks.append((('ds',), 4, False, (14, 20), seed))
    # vacuum option ('no matter') together with a cosmological constant
    tasks.append((('ds',), 4, True, (14, 20), seed))
    # anti-de Sitter: Lambda < 0, with and without the vacuum option
    tasks.append((('ads',), 4, True, (16, 32), seed))
    tasks.append((('ads',), 4, False, (16, 32), seed))
    return tasks


def judge(run, task, res):
    desc, p, vacuum, Ns, seed = task
    tag = ':'.join(str(x) for x in desc) + f":p={p}:vac={int(vacuum)}"
    if res['raised']:
        run.violation(f"C06:raised:{desc[0]}", f"{tag}: {res['raised']}",
                      {'task': res['task']})
        return
    exact = desc[0] == 'ds'

    def judge_err(k, e_lo, e_hi):
        if k in ALG or exact:
            return (e_lo <= 1e-9 and e_hi <= 1e-9,
                    f"algebraic/exact key: rel err {e_lo:.2e},{e_hi:.2e}")
        # badly scaled data: large terms (~1/a^2) cancel in the
        # dt-quantities; the error relative to the result is larger at
        # equal resolution (it still has to fall at the scheme's order)
        return gc.converges(e_lo, e_hi, p, cap=gc.CAPS[p] * (
            30 if desc[0] in ('scaled', 'ads') else 1))

    for kind, sig, limit, text in (
            ('lamattr', 'Lambda-as-attribute', 1e-12,
             "the cosmological constant is assigned to rel.Lambda after "
             "construction instead of passed as a keyword"),
            ('style', 'input-style', 1e-9,
             "metric, curvature and shift are given by components instead "
             "of arrays (fresh instance, reverse request order)"),
            ('order', 'order-dependent', 1e-9,
             "the same keys are requested in reverse order on a fresh "
             "instance")):
        for k, d in res.get(kind, {}).items():
            run.count({'lamattr': 'lambda_attribute_comparisons',
                       'style': 'input_style_comparisons',
                       'order': 'order_comparisons'}[kind])
            if d <= limit:
                continue
            ok, why = gc.alt_verdict(res, kind, k, judge_err)
            if ok:
                run.count('variant_differs_but_converges')
                continue
            run.violation(f"C06:{sig}:{k}",
                          f"{tag}: {k} differs by {d:.2e} (relative) when "
                          f"{text}, and the variant does not converge to "
                          f"the exact value either ({why})",
                          {'task': res['task'], 'key': k})
    for k, (e_lo, e_hi) in res['err'].items():
        nontrivial = res['refmax'][k] > 1e-6
        run.seen(desc, p, vacuum, k, nontrivial)
        run.count('comparisons')
        if nontrivial:
            run.count('nontrivial_comparisons')
        ok, why = judge_err(k, e_lo, e_hi)
        if not ok:
            kind = ('constraint' if k in CONSTRAINTS else
                    'dt' if k in DTKEYS else 'value')
            run.violation(
                f"C06:key={k}:{desc[0]}",
                f"{tag}: {k} ({kind}) does not converge to "
                f"{'zero' if kind == 'constraint' else 'the exact value'}: "
                f"{why}", {'task': res['task'], 'key': k,
                           'errors': [e_lo, e_hi]})


def main(tier):
    run = runner.Run(PID, tier, "exploration")
    tasks = build_tasks(tier, run.seed)
    results = runner.pmap(case, tasks)
    worst = {}
    on = {}
    for t, r in zip(tasks, results):
        judge(run, t, r)
        if not r['raised'] and t[0][0] == 'lattice' and t[1] == 8:
            for k, e in r['err'].items():
                worst[k] = max(worst.get(k, 0.0), e[1])
            for k in DTKEYS:
                on.setdefault(k, set()).update(
                    fields.lattice(*t[0][1:5], Lambda=t[0][5]).features)
    run.sample({'spacetime': 'lattice L2 S3 G2 D1 Lambda=0.3',
                'fd_order': 8, 'N': [16, 32],
                'keys': list(DTKEYS) + list(CONSTRAINTS)})
    run.sample({'largest relative error at N=32, order 8': worst})
    run.assume("T := (G + Lambda g)/kappa supplied as Tdown4; vacuum=True "
               "only on flat data with Lambda=0")
    return run.finish({
        'evaluations': run.counters.get('comparisons', 0),
        'distinct_nontrivial': run.counters.get('nontrivial_comparisons', 0),
        'rule': "one evaluation = one (spacetime cell, fd_order, key) at two "
                "resolutions; non-trivial = reference (or, for constraints, "
                "the sum of term magnitudes) not identically zero",
        'cases': len(tasks),
        'worst_rel_error_N32_order8': worst,
        'features_on_per_dt_key': {k: sorted(v) for k, v in on.items()},
        'exhaustive': True,
    })


def replay(rec):
    t = rec['case']['task']
    r = case((tuple(t[0]), t[1], t[2], tuple(t[3]), rec.get('seed', 0)))
    for k, e in r['err'].items():
        print(k, e)
    print(r['raised'])
    return 0
