"""C03 - frozen inputs are never evicted; cache clean-up keeps its bookkeeping
consistent.

E1 on the real AurelCore (through a recording subclass that changes no
behaviour): request histories x (period, memory threshold, importance
overrides) x grid shapes x freezing path, with invariants F1-F4 evaluated
after every single request (also the nested ones, also inside over_time).
"""
import numpy as np

from mc import explorer, runner
from checks import grcommon as gc

PID = "C03"
ALPHABET = ['gammadet', 'Ktrace', 's_RicciS', 'rho_n', 'betadown3',
            'Momentumup3', 'Momentumx', 'Momentumdownx', 'gammaup3', 's_Ricci_down3', 'Tdown4', 'gdown4',
            's_Gamma_udd3', 'st_Gamma_udd4', 's_Riemann_down3',
            'st_Riemann_down4', 'Weyl_Psi', 'dtconserved', 'Weyl_invariants',
            'alpha', 'gxx', 'rho0', 'levicivita_down3', 'kronecker_delta4',
            's_covd', 'Lie_beta']
SMALL = ['gammadet', 'Momentumx', 'Momentumdownx', 'gammaup3', 's_Gamma_udd3', 's_RicciS', 'Tdown4',
         'st_Riemann_down4', 'Weyl_Psi', 'dtconserved', 'Weyl_invariants',
         'alpha', 'DDalpha', 'press_n',   # names containing input names
         'levicivita_down3',    # a no-argument helper that has no description
         's_covd']      # rel['s_covd'] hands out the method (takes arguments)
# histories that contain a refused request (the calculation raises, the
# caller catches, the object stays in use)
REFUSED = ['refused:Psi4_lm', 'gammadet', 'Ktrace', 'Weyl_Psi', 'gammaup3',
           's_RicciS']
REFUSED_CFGS = [(period, thr, imp, (4, 5, 6), path)
                for period, thr, imp, path in [
                    (1, 'always', (), 'freeze'), (2, 'never', (), 'freeze'),
                    (3, 'mid', (('s_Gamma_udd3', 0),), 'load'),
                    (20, 'never', (), 'load'), (2, 'mid2', (), 'late'),
                    (1, 'never', (('gammaup3', 50.0),), 'freeze'),
                    (3, 'always', (), 'load'), (5, 'mid', (), 'freeze'),
                    (2, 'always', (('s_Gamma_udd3', 0),), 'late'),
                    (5, 'never', (), 'touched')]]
_CFG = None
_PROBLEMS = None      # filled by the monitored core


def make_inputs(shape, step=0):
    nx, ny, nz = shape
    x = (np.arange(nx) + 0.3) * (2 * np.pi / nx)
    y = (np.arange(ny) + 0.1) * (2 * np.pi / ny)
    z = (np.arange(nz) + 0.7) * (2 * np.pi / nz)
    X, Y, Z = np.meshgrid(x, y, z, indexing='ij')
    s = 0.1 * step
    g = np.array([[1 + 0.1 * np.sin(Y + s), 0.03 * np.cos(Z), 0.02 * np.sin(X)],
                  [0.03 * np.cos(Z), 1.2 + 0.1 * np.cos(X), 0.04 * np.sin(Y)],
                  [0.02 * np.sin(X), 0.04 * np.sin(Y), 0.9 + 0.1 * np.sin(Z)]])
    K = 0.1 * np.array([[np.sin(X), 0.2 * np.cos(Y), 0.1 + 0 * X],
                        [0.2 * np.cos(Y), np.cos(Z + s), 0.3 * np.sin(X)],
                        [0.1 + 0 * X, 0.3 * np.sin(X), np.sin(Y + Z)]])
    return {'gammadown3': g, 'Kdown3': K,
            'alpha': 1 + 0.1 * np.sin(X + Y + s),
            'betaup3': 0.05 * np.array([np.sin(Y), np.cos(Z), np.sin(X + s)]),
            'rho0': 1 + 0.2 * np.cos(X) * np.sin(Z),
            'press': 0.1 + 0.02 * np.sin(Y), 'eps': 0.2 + 0 * X}, \
        {'Nx': nx, 'Ny': ny, 'Nz': nz, 'xmin': 0.3 * 2 * np.pi / nx,
         'ymin': 0.1 * 2 * np.pi / ny, 'zmin': 0.7 * 2 * np.pi / nz,
         'dx': 2 * np.pi / nx, 'dy': 2 * np.pi / ny, 'dz': 2 * np.pi / nz}


def monitored_class():
    from aurel.core import AurelCore

    class MonitoredCore(AurelCore):
        """Records; never changes behaviour."""
        _depth = 0
        _in_cleanup = False
        frozen_ref = None     # key -> (object id, digest)
        deletions = 0

        def snapshot_frozen(self):
            self.frozen_ref = {
                k: (id(self.data[k]), runner.digest(self.data[k]))
                for k, w in self.var_importance.items()
                if w == 0 and k in self.data}

        def check(self, where, top):
            P = _PROBLEMS
            if self.frozen_ref is None:
                return
            for k, (oid, dg) in self.frozen_ref.items():
                if k not in self.data:
                    P.append(('F1:frozen-evicted', k, where))
                elif id(self.data[k]) != oid:
                    P.append(('F1:frozen-replaced', k, where))
                elif top and runner.digest(self.data[k]) != dg:
                    P.append(('F1:frozen-altered', k, where))
            extra = set(self.last_accessed) - set(self.data)
            if extra:
                P.append(('F2:age-table-stale', sorted(extra)[0], where))
            for k, w in self.var_importance.items():
                if w == 0 and k in self.data and k not in self.frozen_ref:
                    # frozen later (custom variables of over_time)
                    self.frozen_ref[k] = (id(self.data[k]),
                                          runner.digest(self.data[k]))

        def __getitem__(self, key):
            top = self._depth == 0
            if top:
                before = {k: id(v) for k, v in self.data.items()}
                dig = {k: runner.digest(v) for k, v in self.data.items()
                       } if self.frozen_ref is not None else {}
            self._depth += 1
            try:
                v = super().__getitem__(key)
            finally:
                self._depth -= 1
            self.check(key, top)
            if top and self.frozen_ref is not None:
                removed = set(before) - set(self.data)
                for k in removed:
                    if self.var_importance.get(k, 1.0) == 0:
                        _PROBLEMS.append(('F3:removed-frozen', k, key))
                    if k == key:
                        _PROBLEMS.append(('F3:removed-requested', k, key))
                for k in set(before) & set(self.data):
                    if id(self.data[k]) == before[k] and k in dig and \
                            runner.digest(self.data[k]) != dig[k]:
                        _PROBLEMS.append(('F3:entry-altered', k, key))
            return v

        def cleanup_cache(self):
            n0 = len(self.data)
            super().cleanup_cache()
            if n0 - len(self.data) < 0:
                _PROBLEMS.append(('F4:cleanup-added-entries', '', ''))
            # F6: when the clean-up returns, the cache is below the memory
            # threshold or nothing removable (age > 1, importance > 0) is
            # left - sizes measured as the clean-up's own entry test does
            from aurel.utils.memory import get_size   # the documented one
            thr = self.memory_threshold_inGB * 1024 ** 3
            if get_size(self.data) >= thr:
                left = [k for k, t in self.last_accessed.items()
                        if self.calculation_count - t > 1
                        and self.var_importance.get(k, 1.0) > 0
                        and get_size(self.data[k]) > 0]
                if left:
                    _PROBLEMS.append(('F6:cleanup-stopped-above-threshold',
                                      left[0], ''))
    return MonitoredCore


class System:
    def __init__(self):
        global _PROBLEMS
        self.cfg = _CFG
        period, thr, imp, shape, path = self.cfg
        _PROBLEMS = []
        self.problems = _PROBLEMS
        self.shape = shape
        self.path = path
        self.ops = []
        self.last = None
        self.inp, self.param = make_inputs(shape)
        if path == 'freeze-int32':
            # grid sizes as they come out of HDF5 attributes
            for c in 'xyz':
                self.param['N' + c] = np.int32(self.param['N' + c])
        from aurel.finitedifference import FiniteDifference
        with gc.quiet():
            self.fd = FiniteDifference(self.param, boundary='periodic',
                                       fd_order=2, verbose=False)
        insize = sum(v.nbytes for v in self.inp.values())
        sb = shape[0] * shape[1] * shape[2] * 8
        gb = 1024.0 ** 3
        self.kw = {'clear_cache_every_nbr_calc': period,
                   'memory_threshold_inGB': {
                       'always': 1e-15, 'mid': (insize + 6 * sb) / gb,
                       'mid2': (insize + 40 * sb) / gb, 'never': 4}[thr]}
        self.imp = imp
        self.rel = None
        if path != 'over_time':
            self.build()

    def build(self):
        cls = monitored_class()
        with gc.quiet():
            rel = cls(self.fd, verbose=False, **self.kw)
        for k, w in self.imp:
            rel.var_importance[k] = w
        path = self.path
        if path in ('freeze', 'freeze-int32'):
            for k, v in self.inp.items():
                rel.data[k] = v
            rel.freeze_data()
        elif path == 'load':
            sim = {k: [None, v] for k, v in self.inp.items()}
            rel.load_data(sim, 1)
        elif path == 'mixed-load':
            # lapse and shift set by hand and frozen, the rest loaded from a
            # simulation dictionary afterwards
            for k in ('alpha', 'betaup3'):
                rel.data[k] = self.inp[k]
            rel.freeze_data()
            sim = {k: [None, v] for k, v in self.inp.items()
                   if k not in ('alpha', 'betaup3')}
            rel.load_data(sim, 1)
        elif path == 'reload':
            # the same instance loaded again after a request (same data)
            sim = {k: [None, v] for k, v in self.inp.items()}
            rel.load_data(sim, 1)
            with gc.quiet():
                rel['gammadet']
                rel['Ktrace']
            rel.load_data(sim, 1)
        elif path in ('touched', 'touched-load'):
            # inputs stored, read back through rel[...] (cache hits leave an
            # access record: typical when one input is built from another),
            # and only then frozen
            for k, v in self.inp.items():
                rel.data[k] = v
            with gc.quiet():
                for k in self.inp:
                    rel[k]
            if path == 'touched':
                rel.freeze_data()
            else:
                sim = {k: [None, v] for k, v in self.inp.items()}
                rel.load_data(sim, 1)
        elif path == 'late':
            # some requests first (on defaults), then inputs, then freeze:
            # derived entries present at that moment are frozen too
            with gc.quiet():
                rel['gammadet']
                rel['Ktrace']
            for k in ('gammadet', 'Ktrace', 'gammadown3', 'Kdown3', 'gxx',
                      'kxx', 'gxy', 'gxz', 'gyy', 'gyz', 'gzz', 'kxy', 'kxz',
                      'kyy', 'kyz', 'kzz', 'gammaup3'):
                rel.data.pop(k, None)
                rel.last_accessed.pop(k, None)
            for k, v in self.inp.items():
                rel.data[k] = v
            rel.freeze_data()
        rel.snapshot_frozen()
        self.rel = rel

    def canon(self):
        if self.path == 'over_time':
            return ('ot', tuple(self.ops))
        rel = self.rel
        ages = tuple(sorted(
            (k, rel.calculation_count - rel.last_accessed.get(k, -10 ** 6))
            for k in rel.data))
        return (ages, rel.calculation_count
                % rel.clear_cache_every_nbr_calc)

    def outcome(self):
        return self.last

    def apply(self, op, checked=True):
        viol = []
        self.ops.append(op)
        tag = f"{self.path}"
        if self.path == 'over_time':
            if not checked:
                return viol
            return self.run_over_time(tag)
        n0 = set(self.rel.data)
        if op.startswith('refused:'):
            return self.apply_refused(op.split(':', 1)[1], checked)
        try:
            with gc.quiet():
                v = self.rel[op]
        except Exception as ex:      # noqa: BLE001
            self.last = ('raised',)
            if checked:
                viol.append((f"C03:raised:{type(ex).__name__}",
                             f"{self.cfg}: request {op} after "
                             f"{self.ops[:-1]}: {ex!r}"[:300]))
            return viol
        evicted = n0 - set(self.rel.data)
        self.last = ('evicted', min(len(evicted), 5))
        if checked:
            for p in self.problems:
                viol.append((f"C03:{p[0]}",
                             f"{self.cfg}: {p} after {self.ops}"[:300]))
            # inputs are what requests see: no fallback to defaults
            for k, obj in self.inp.items():
                try:
                    with gc.quiet():
                        got = self.rel[k]
                except Exception as ex:      # noqa: BLE001
                    viol.append((f"C03:F5:input-request-raised:"
                                 f"{type(ex).__name__}",
                                 f"{self.cfg}: rel[{k!r}] after {self.ops}: "
                                 f"{ex!r}"[:300]))
                    continue
                if got is not obj:
                    viol.append(("C03:F5:input-not-returned",
                                 f"{self.cfg}: rel[{k!r}] is not the frozen "
                                 f"input after {self.ops}"))
        del self.problems[:]
        return viol

    def apply_refused(self, key, checked):
        """A request whose calculation is refused (a documented option given
        an invalid value: the error is the caller's to catch); the object
        stays in use afterwards, so the bookkeeping invariants must hold
        right after the refusal and at every later clean-up."""
        viol = []
        rel = self.rel
        saved = rel.interp_method
        rel.interp_method = 'no-such-method'
        raised = False
        try:
            with gc.quiet():
                rel[key]
        except Exception:      # noqa: BLE001  (the refusal itself is fine)
            raised = True
        finally:
            rel.interp_method = saved
        self.last = ('refused', raised)
        if raised:
            # the recording subclass checks only when a request returns
            rel._depth = 0
            rel.check('refused:' + key, True)
        if checked:
            if raised and key in rel.data:
                viol.append(("C03:F2:refused-request-cached",
                             f"{self.cfg}: {key} cached by a request that "
                             f"raised, after {self.ops}"))
            for p in self.problems:
                viol.append((f"C03:{p[0]}",
                             f"{self.cfg}: {p} after {self.ops}"[:300]))
        del self.problems[:]
        return viol

    def run_over_time(self, tag):
        import aurel.core as acore
        from aurel import time as atime
        viol = []
        table = {'it': [0, 1]}
        steps = [make_inputs(self.shape, s)[0] for s in (0, 1)]
        for k in steps[0]:
            table[k] = [steps[0][k], steps[1][k]]
        cls = monitored_class()
        orig_init = cls.__init__
        imp = self.imp
        expected_inputs = [k for k in steps[0] if k not in self.ops]

        class Auto(cls):
            _initial = None

            def __getitem__(self, key):
                # what the driver loaded for this step must be what every
                # request sees, from the very first request on
                if self._depth == 0 and self._initial is None:
                    self._initial = {k: id(v) for k, v in self.data.items()}
                    # every column of the step that is not itself requested
                    # has been loaded (and is therefore frozen)
                    # (instances holding none of them are the driver's
                    # dry runs that validate custom functions)
                    for k in expected_inputs:
                        if k not in self.data and any(
                                q in self.data for q in expected_inputs):
                            _PROBLEMS.append(('F1:driver-input-not-loaded',
                                              k, key))
                v = super().__getitem__(key)
                for k, oid in self._initial.items():
                    if k not in self.data:
                        _PROBLEMS.append(('F1:driver-input-evicted', k, key))
                    elif id(self.data[k]) != oid:
                        _PROBLEMS.append(('F1:driver-input-replaced', k,
                                          key))
                return v

            def freeze_data(self):
                super().freeze_data()
                for k, w in imp:
                    if k not in self.data:
                        self.var_importance[k] = w
                self.snapshot_frozen()
        old = acore.AurelCore
        acore.AurelCore = Auto
        try:
            with gc.quiet():
                # deep custom variable: many calculations (and clean-ups)
                # happen while it is evaluated
                custom = {'myvar': lambda rel: rel['s_RicciS'] * 2.0
                          + rel['Ktrace']}
                # dtconserved is a tuple of differently shaped arrays, which
                # over_time cannot tabulate (not a clean-up matter)
                atime.over_time(table, self.fd,
                                vars=[o for o in self.ops
                                      if o != 'dtconserved'] + [custom],
                                estimates=['max'], verbose=False, **self.kw)
            self.last = ('over_time', len(self.problems) > 0)
        except Exception as ex:      # noqa: BLE001
            self.last = ('raised',)
            viol.append((f"C03:over_time-raised:{type(ex).__name__}",
                         f"{self.cfg}: vars={self.ops}: {ex!r}"[:300]))
        finally:
            acore.AurelCore = old
        for p in self.problems:
            viol.append((f"C03:{p[0]}:over_time",
                         f"{self.cfg}: {p} vars={self.ops}"[:300]))
        del self.problems[:]
        return viol


def factory():
    return System()


def plans(tier):
    P = []
    shapes = [(1, 1, 1), (2, 3, 4), (4, 5, 6), (8, 8, 8)]
    imps = [(), (('s_Gamma_udd3', 0),), (('gammaup3', 50.0),),
            (('s_RicciS', 1.0), ('s_Gamma_udd3', 1.0))]
    periods = (1, 2, 3, 5, 20)
    thrs = ('always', 'mid', 'mid2', 'never')
    paths = ('freeze', 'load', 'late', 'over_time')
    if tier != 'quick':
        paths = paths + ('touched', 'touched-load', 'mixed-load', 'reload')
    if tier == 'quick':
        i = 0
        for period in periods:
            for thr in thrs:
                for path in paths:
                    shape = shapes[i % 4]
                    imp = imps[(i // 4) % 4]
                    i += 1
                    depth = 2
                    ops = ALPHABET if path != 'over_time' else SMALL
                    P.append(((period, thr, imp, shape, path), ops, depth))
        for j, (period, thr) in enumerate(
                [(1, 'always'), (2, 'mid'), (3, 'always'), (5, 'mid2'),
                 (20, 'always'), (2, 'always')]):
            P.append(((period, thr, imps[j % 4], shapes[1 + j % 3],
                       'touched' if j % 2 == 0 else 'touched-load'),
                      ALPHABET, 2))
        for j, (period, thr) in enumerate(
                [(1, 'always'), (3, 'mid'), (20, 'always'), (2, 'mid2')]):
            P.append(((period, thr, imps[j % 4], shapes[1 + j % 3],
                       'mixed-load' if j % 2 == 0 else 'reload'),
                      ALPHABET, 2))
        # a long clean-up period with 32-bit grid sizes (the product
        # period * Nx*Ny*Nz*8 exceeds 2**31)
        P.append(((3 * 10 ** 6, 'mid', (), (4, 5, 6), 'freeze-int32'), SMALL, 2))
        for cfgx in [(1, 'always', (), (4, 5, 6), 'freeze'),
                     (2, 'mid', imps[1], (2, 3, 4), 'load'),
                     (3, 'mid2', imps[2], (4, 5, 6), 'late'),
                     (5, 'mid', imps[3], (4, 5, 6), 'freeze')]:
            P.append((cfgx, SMALL, 3))
        for cfgx in REFUSED_CFGS[:6]:
            P.append((cfgx, REFUSED, 3))
    else:
        for cfgx in REFUSED_CFGS:
            P.append((cfgx, REFUSED, 4))
        for period in periods:
            for thr in thrs:
                for imp in imps:
                    for shape in shapes:
                        for path in paths:
                            ops = ALPHABET if path != 'over_time' else SMALL
                            P.append(((period, thr, imp, shape, path), ops,
                                      2))
        for period in (1, 2, 3):
            for thr in ('always', 'mid', 'mid2'):
                P.append(((period, thr, imps[1], (4, 5, 6), 'freeze'),
                          SMALL, 4))
    return P


def main(tier):
    global _CFG
    run = runner.Run(PID, tier, "model_checking")
    total = {'states': 0, 'transitions': 0, 'pruned': 0}
    evict_hist = {}
    nplans = 0
    for cfg, ops, depth in plans(tier):
        _CFG = cfg
        label = f"{cfg}/ops={len(ops)}/depth={depth}"
        st = explorer.bfs(factory, ops, depth, run, label=label,
                          budget_s=600, group=16, keep_outcome_hist=True)
        for oc in st.pop('outcome_hist'):
            evict_hist[oc] = evict_hist.get(oc, 0) + 1
        for k in total:
            total[k] += st[k]
        nplans += 1
    evicting = sum(v for k, v in evict_hist.items()
                   if k and k[0] == 'evicted' and k[1] > 0)
    if evicting == 0:
        run.note("WARNING vacuous: no transition evicted anything")
    run.note(f"{nplans} configurations: {total}; outcome classes: "
             f"{sorted(evict_hist.items(), key=str)}")
    run.sample({'configuration': {'period': 2, 'threshold': 'intermittent',
                                  'importance': {'s_Gamma_udd3': 0},
                                  'grid': [2, 3, 4], 'path': 'load_data'},
                'history': ['st_Riemann_down4', 'Weyl_Psi', 'gammadet'],
                'invariants': ['F1 frozen present/same object/same bytes',
                               'F2 last_accessed subset of data',
                               'F3 only whole unfrozen entries removed',
                               'F4 no exception', 'F5 inputs returned']})
    run.assume("the recording subclass only observes (push/pop a depth "
               "counter around __getitem__, digests before/after)")
    return run.finish({
        'states': total['states'], 'transitions': total['transitions'],
        'traces_validated_against_impl': total['transitions'],
        'histories_pruned': total['pruned'], 'configurations': nplans,
        'outcome_classes': {str(k): v for k, v in evict_hist.items()},
        'rule': "state = (cached keys with ages, count mod period); "
                "transition = one real request (or one over_time call with "
                "the history as vars); invariants after every request",
        'exhaustive': True,
    })


def replay(rec):
    global _CFG
    c = rec['case']
    for tier in ('quick', 'thorough'):
        for cfg, ops, depth in plans(tier):
            if f"{cfg}/ops={len(ops)}/depth={depth}" == c['label']:
                _CFG = cfg
                v = explorer.replay_history(factory, ops, c['history_idx'])
                return 1 if v else 0
    print('plan not found')
    return 2
