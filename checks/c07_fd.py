"""C07 - finite-difference operators are the stated-order derivative at every
grid point.  Complete decision by linearity: the full matrix of every
operator is extracted by applying it to every basis vector of the grid and
compared entry by entry with exact rational Fornberg weights (R2).
"""
import contextlib
import io
import itertools

import numpy as np

from mc import runner
from refs import fdweights

PID = "C07"
ORDERS = (2, 4, 6, 8)
BOUNDARIES = ('no boundary', 'periodic', 'symmetric')
TOL = 1e-13


def spacings(seed):
    rng = np.random.RandomState(1000 + seed)
    base = np.array([0.3, 0.7, 1.1])
    return tuple(float(b * (0.8 + 0.4 * rng.rand())) for b in base)


def make_fd(shape, p, boundary, sp):
    from aurel.finitedifference import FiniteDifference
    param = {'Nx': shape[0], 'Ny': shape[1], 'Nz': shape[2],
             'xmin': -0.4, 'ymin': 0.2, 'zmin': 1.3,
             'dx': sp[0], 'dy': sp[1], 'dz': sp[2]}
    with contextlib.redirect_stdout(io.StringIO()):
        return FiniteDifference(param, boundary=boundary, fd_order=p,
                                verbose=False)


def min_size(p, boundary):
    m = p // 2
    return {'no boundary': 3 * m, 'periodic': m, 'symmetric': m + 1}[boundary]


def scalar_case(task):
    """Full matrix of d3{axis} on a grid whose tested axis has N points."""
    p, boundary, axis, N, sp = task
    other = [2, 3]
    shape = [0, 0, 0]
    shape[axis] = N
    oi = iter(other)
    for a in range(3):
        if a != axis:
            shape[a] = next(oi)
    shape = tuple(shape)
    fd = make_fd(shape, p, boundary, sp)
    op = (fd.d3x, fd.d3y, fd.d3z)[axis]
    h = sp[axis]
    out = {'task': [p, boundary, axis, N], 'status': None, 'bad': [],
           'entries': 0, 'rows': 0}
    ref_rows = [fdweights.reference_row(i, N, p, boundary) for i in range(N)]
    supported = all(r is not None for r in ref_rows)
    # --- extract the matrix
    cols = {}
    try:
        for idx in itertools.product(*[range(s) for s in shape]):
            e = np.zeros(shape)
            e[idx] = 1.0
            r = np.asarray(op(e))
            if r.shape != shape:
                out['status'] = 'returned'
                out['bad'].append(('shape', list(idx), list(r.shape)))
                return out
            cols[idx] = r
    except Exception as ex:     # noqa: BLE001
        out['status'] = 'raised:' + type(ex).__name__
        if supported and N >= min_size(p, boundary):
            out['bad'].append(('raised on supported size', repr(ex)[:120]))
        return out
    out['status'] = 'returned'
    if not supported:
        out['bad'].append(('returned for a size the stencil cannot fit',
                           N))
        return out
    # --- compare with the reference, entry by entry
    maxrow = max([abs(float(w)) for r in ref_rows for w in r.values()]
                 + [1.0])
    scale = maxrow / h
    for idx, col in cols.items():
        j = idx[axis]
        expect = np.zeros(shape)
        for i in range(N):
            w = ref_rows[i].get(j)
            if w is not None:
                tgt = list(idx)
                tgt[axis] = i
                expect[tuple(tgt)] = float(w) / h
        err = np.abs(col - expect)
        out['entries'] += col.size
        if not np.all(np.isfinite(col)) or err.max() > TOL * scale:
            k = np.unravel_index(np.argmax(np.where(np.isfinite(err), err,
                                                    np.inf)), shape)
            out['bad'].append(('entry', list(idx), [int(x) for x in k],
                               float(col[k]), float(expect[k])))
            if len(out['bad']) > 5:
                break
    out['rows'] = N
    # --- the same matrix from integer-typed and single-precision impulses
    # ("for all real input fields": the dtype of the samples must not change
    # the weights; an integer field has a non-integer derivative)
    try:
        for idx, col in cols.items():
            for dt, tol, amp in ((np.int64, TOL, 1), (np.float32, 2e-6, 1),
                                 (np.int32, TOL, 10 ** 8),
                                 (np.int16, TOL, 30000),
                                 (np.uint8, TOL, 200)):
                # (large values in narrow integer types: a weight written as
                # a Python int keeps the product in that type and wraps)
                if dt is not np.int64 and any(
                        idx[a] != 0 for a in range(3) if a != axis):
                    continue
                e = np.zeros(shape, dtype=dt)
                e[idx] = amp
                r = np.asarray(op(e)) / amp
                out['entries'] += col.size
                if r.shape != col.shape or not (
                        np.abs(r - col).max() <= tol * scale):
                    out['bad'].append(('dtype', np.dtype(dt).name, list(idx),
                                       str(r.dtype)))
                    break
            if out['bad']:
                break
    except Exception as ex:     # noqa: BLE001
        out['bad'].append(('dtype', 'raised', repr(ex)[:120]))
    # --- locality: a non-finite sample (excised point, NaN mask) reaches
    # exactly the points whose stencil contains it, no others
    try:
        with np.errstate(all='ignore'):
            for idx, col in cols.items():
                if any(idx[a] != 0 for a in range(3) if a != axis):
                    continue
                for bad_val in (np.nan, np.inf):
                    e = np.zeros(shape)
                    e[idx] = bad_val
                    r = np.asarray(op(e))
                    out['entries'] += col.size
                    want = np.zeros(shape, dtype=bool)
                    for i in range(N):
                        if idx[axis] in fdweights.reference_reach(
                                i, N, p, boundary):
                            tgt = list(idx)
                            tgt[axis] = i
                            want[tuple(tgt)] = True
                    if r.shape != col.shape or not np.array_equal(
                            ~np.isfinite(r), want) or np.any(
                                r[~want] != 0):
                        out['bad'].append(('locality', repr(bad_val),
                                           list(idx)))
                        break
                if out['bad']:
                    break
    except Exception as ex:     # noqa: BLE001
        out['bad'].append(('locality', 'raised', repr(ex)[:120]))
    # --- homogeneity: tiny impulses, and tiny impulses on a constant offset
    # (a perturbation on an O(1) background), reproduce the same columns
    try:
        for idx, col in cols.items():
            if any(idx[a] != 0 for a in range(3) if a != axis):
                continue
            for amp, off in ((1e-9, 0.0), (1e-7, 1.0), (1e-3, -1e4)):
                e = np.full(shape, off)
                e[idx] += amp
                r = np.asarray(op(e))
                out['entries'] += col.size
                tol = TOL * scale * (amp + 10 * abs(off))
                if r.shape != col.shape or not (
                        np.abs(r - (e[idx] - off) * col).max() <= tol):
                    out['bad'].append(('homogeneity', amp, off, list(idx)))
                    break
            if out['bad']:
                break
    except Exception as ex:     # noqa: BLE001
        out['bad'].append(('homogeneity', 'raised', repr(ex)[:120]))
    # --- superposition along the axis (justifies reading the matrix)
    line = [0, 0, 0]
    rng = np.random.RandomState(7)
    for ia, ib in itertools.combinations(range(N), 2):
        a, b = rng.randn(2)
        e = np.zeros(shape)
        la, lb = list(line), list(line)
        la[axis], lb[axis] = ia, ib
        e[tuple(la)] = a
        e[tuple(lb)] = b
        r = op(e)
        lin = a * cols[tuple(la)] + b * cols[tuple(lb)]
        if np.abs(r - lin).max() > 1e-12 * scale * (abs(a) + abs(b)):
            out['bad'].append(('superposition', ia, ib))
            break
    # --- exactness on polynomials of degree <= p (consequence, asserted)
    coords = [fd.xarray[:shape[0]], fd.yarray[:shape[1]],
              fd.zarray[:shape[2]]][axis]
    if len(coords) == N and boundary == 'no boundary':
        x = coords - coords[N // 2]
        for deg in range(p + 1):
            sl = [None, None, None]
            sl[axis] = slice(None)
            f = np.broadcast_to((x ** deg)[tuple(sl)], shape).copy()
            d = op(f)
            ex = np.broadcast_to((deg * x ** max(deg - 1, 0) if deg else
                                  0 * x)[tuple(sl)], shape)
            sc = max(1.0, np.abs(x).max() ** deg) / h
            if np.abs(d - ex).max() > 1e-10 * sc * N:
                out['bad'].append(('polynomial', deg,
                                   float(np.abs(d - ex).max())))
    return out


def comp_shapes():
    # unequal extents tell the component axes apart; the square ones are
    # the shapes aurel itself differentiates (d_k gamma_ij, Gamma^i_jk),
    # where a shortcut through an assumed index symmetry would apply
    return [(1, (3,)), (2, (2, 3)), (3, (2, 3, 2)), (2, (3, 3)),
            (3, (3, 3, 3))]


def tensor_case(task):
    """Tensor variants act component by component, derivative index first."""
    p, boundary, shape, sp, restricted = task
    fd = make_fd(shape, p, boundary, sp)
    out = {'task': [p, boundary, list(shape)], 'bad': [], 'inputs': 0,
           'restricted': restricted}
    scal = (fd.d3x, fd.d3y, fd.d3z)
    if restricted:
        c = tuple(s // 2 for s in shape)
        pts = set()
        for a in range(3):
            for i in range(shape[a]):
                q = list(c)
                q[a] = i
                pts.add(tuple(q))
        pts = sorted(pts)
    else:
        pts = list(itertools.product(*[range(s) for s in shape]))
    try:
        base = {}
        for idx in pts:
            e = np.zeros(shape)
            e[idx] = 1.0
            base[idx] = [np.asarray(op(e)) for op in scal]
        # d3_scalar
        for idx in pts:
            e = np.zeros(shape)
            e[idx] = 1.0
            r = np.asarray(fd.d3_scalar(e))
            out['inputs'] += 1
            if r.shape != (3,) + shape or any(
                    np.abs(r[a] - base[idx][a]).max() > 1e-13 * (
                        1 + np.abs(base[idx][a]).max()) for a in range(3)):
                out['bad'].append(('d3_scalar', list(idx)))
                break
        for rank, cshape in comp_shapes():
            allf = getattr(fd, f'd3_rank{rank}tensor')
            peraxis = [getattr(fd, f'd3{ax}_rank{rank}tensor')
                       for ax in 'xyz']
            for comp in itertools.product(*[range(s) for s in cshape]):
                for idx in pts:
                    T = np.zeros(cshape + shape)
                    T[comp + idx] = 1.0
                    out['inputs'] += 1
                    expect = np.zeros((3,) + cshape + shape)
                    for a in range(3):
                        expect[(a,) + comp] = base[idx][a]
                    r = np.asarray(allf(T))
                    sc = 1 + np.abs(expect).max()
                    ok = (r.shape == expect.shape
                          and np.abs(r - expect).max() <= 1e-13 * sc)
                    if ok:
                        for a in range(3):
                            ra = np.asarray(peraxis[a](T))
                            if (ra.shape != expect[a].shape or
                                    np.abs(ra - expect[a]).max()
                                    > 1e-13 * sc):
                                ok = False
                                out['bad'].append(
                                    (f'd3{"xyz"[a]}_rank{rank}tensor',
                                     list(comp), list(idx)))
                                break
                    else:
                        out['bad'].append((f'd3_rank{rank}tensor',
                                           list(comp), list(idx)))
                    if not ok:
                        break
                if out['bad']:
                    break
    except Exception as ex:     # noqa: BLE001
        out['bad'].append(('raised', repr(ex)[:200]))
    return out


def build_tasks(tier, sp):
    scal = []
    for p in ORDERS:
        nmax = 2 * p + 8
        sizes = list(range(1, nmax + 1)) + [33]
        if tier == 'thorough':
            sizes += [64, 101]
        for b in BOUNDARIES:
            for axis in range(3):
                for N in sizes:
                    scal.append((p, b, axis, N, sp))
    tens = []
    for p in ORDERS:
        for b in BOUNDARIES:
            n0 = min_size(p, b)
            shape = (n0, n0 + 1, n0 + 2) if n0 >= 3 else (3, 4, 5)
            restricted = shape[0] * shape[1] * shape[2] > (
                400 if tier == 'thorough' else 130)
            tens.append((p, b, shape, sp, restricted))
    return scal, tens


def main(tier):
    run = runner.Run(PID, tier, "model_checking")
    fdweights.selftest()
    sp = spacings(run.seed)
    scal, tens = build_tasks(tier, sp)
    res_s = runner.pmap(scalar_case, scal)
    res_t = runner.pmap(tensor_case, tens)
    entries = rows = returned = raised = 0
    for t, r in zip(scal, res_s):
        p, b, axis, N, _ = t
        if r['status'] == 'returned':
            returned += 1
        else:
            raised += 1
        entries += r['entries']
        rows += r['rows']
        run.seen(p, b, axis, N, r['status'])
        for bad in r['bad']:
            edge = 'size' if bad[0] in (
                'raised on supported size',
                'returned for a size the stencil cannot fit') else bad[0]
            sig = f"C07:scalar:order={p}:{b}:{edge}"
            run.violation(sig, f"d3{'xyz'[axis]} N={N}: {bad}",
                          {'kind': 'scalar', 'task': [p, b, axis, N],
                           'spacings': sp, 'detail': bad})
    tin = 0
    for t, r in zip(tens, res_t):
        tin += r['inputs']
        for bad in r['bad']:
            sig = f"C07:tensor:{bad[0]}"
            run.violation(sig, f"order={t[0]} {t[1]} grid={t[2]}: {bad}",
                          {'kind': 'tensor', 'task': [t[0], t[1], t[2],
                                                      t[4]],
                           'spacings': sp, 'detail': bad})
    run.sample({'operator': 'd3x', 'order': 4, 'boundary': 'no boundary',
                'N': 9, 'row 0 expected weights':
                [str(w) for w in fdweights.weights(tuple(range(5)))]})
    run.sample({'scalar tasks (order,boundary,axis,N)':
                [list(t[:4]) for t in scal[:3]] + ['...'],
                'tensor tasks': [list(t[:3]) for t in tens[:3]]})
    run.assume("operators are linear in the field (superposition is "
               "additionally asserted on all pairs along the axis)")
    run.assume("sizes below the documented minimum must raise or be exact; "
               "an exception there is accepted")
    return run.finish({
        'states': len(scal) + len(tens),
        'transitions': int(entries) + tin,
        'traces_validated_against_impl': len(scal) + len(tens),
        'evaluations': len(scal) + len(tens),
        'distinct_nontrivial': len(run.distinct),
        'rule': "one case = (order, boundary, axis, N): the complete "
                "operator matrix from all basis vectors of an (N,2,3)-type "
                "grid, compared entry-wise with rational Fornberg weights; "
                "tensor cases = every (component, grid basis vector) pair",
        'matrix_entries_compared': int(entries),
        'matrix_rows': int(rows),
        'cases_returned': returned, 'cases_raised': raised,
        'tensor_inputs': tin,
        'tensor_cases_line_restricted':
            [list(t[:3]) for t in tens if t[4]],
        'spacings': sp,
        'exhaustive': True,
    })


def replay(rec):
    case = rec['case']
    sp = tuple(case['spacings'])
    if case['kind'] == 'scalar':
        p, b, axis, N = case['task']
        r = scalar_case((p, b, axis, N, sp))
    else:
        p, b, shape, restricted = case['task']
        r = tensor_case((p, b, tuple(shape), sp, restricted))
    print(r)
    return 1 if r['bad'] else 0
