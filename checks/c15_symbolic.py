"""C15 - the symbolic core gives the textbook tensors for any metric, simplify
flag and request order.

E1 with snapshots: the only state of AurelCoreSymbolic is its `data` dict, so
a state is copied, not replayed.  BFS over all request orders (states =
cached-key sets + value fingerprints); every returned quantity is compared
with an independent sympy implementation (R5) at rational points.
"""
import contextlib
import io
import time

import sympy as sp

from mc import runner
from refs import symref

PID = "C15"
KEYS = ['gup', 'gdet', 'Gamma_udd', 'Gamma_down', 'Riemann_uddd',
        'Riemann_down', 'Ricci_down', 'RicciS', 'Einstein_down']
TOL = 1e-9


def quiet():
    return contextlib.redirect_stdout(io.StringIO())


def metrics():
    th, ph = sp.symbols('theta phi')
    x, y, z, t = sp.symbols('x y z t')
    tp = sp.Symbol('t', positive=True)
    R = sp.Rational
    M = {}
    M['2D-sphere'] = ([th, ph], sp.Matrix([[1, 0], [0, sp.sin(th) ** 2]]))
    M['2D-nondiag'] = ([x, y], sp.Matrix([[1 + x ** 2, x * y],
                                          [x * y, 2 + y ** 2]]))
    # coordinates declared with assumptions (as users do for radii, times)
    xr, yr = sp.symbols('x y', real=True)
    rp, thp = sp.symbols('r theta', positive=True)
    M['2D-nondiag-real'] = ([xr, yr], sp.Matrix(
        [[1 + xr ** 2, xr * yr], [xr * yr, 2 + yr ** 2]]))
    M['2D-polar-positive'] = ([rp, thp], sp.Matrix(
        [[1 + rp, 0], [0, rp ** 2 * (2 + sp.cos(thp))]]))
    # zero pattern of the metric differs from that of its inverse
    M['2D-null'] = ([x, y], sp.Matrix([[0, 1], [1, 2 + x * y + y ** 2]]))
    M['3D-chain'] = ([x, y, z], sp.Matrix(
        [[2 + y ** 2, R(1, 2) * x, 0],
         [R(1, 2) * x, 3 + z, R(1, 3) * y],
         [0, R(1, 3) * y, 2 + x ** 2]]))
    M['3D-diag'] = ([x, y, z], sp.diag(1 + y ** 2, 2 + sp.sin(z),
                                       1 + x ** 2 * y ** 2))
    M['3D-nondiag-simple'] = ([x, y, z], sp.Matrix(
        [[1, x, 0], [x, 2 + x ** 2, 0], [0, 0, 1 + y ** 2]]))
    M['3D-nondiag-full'] = ([x, y, z], sp.Matrix(
        [[2 + x * y, R(1, 5) * z * x, R(1, 7) * y ** 2],
         [R(1, 5) * z * x, 3 + z ** 2, R(1, 3) * x * y],
         [R(1, 7) * y ** 2, R(1, 3) * x * y, 2 + x ** 2 + z ** 2]]))
    a = tp ** R(2, 3)
    M['4D-FLRW'] = ([tp, x, y, z], sp.diag(-1, a ** 2, a ** 2, a ** 2))
    Om = 1 + x ** 2 + R(1, 2) * y
    M['4D-conformally-flat'] = ([t, x, y, z], sp.diag(
        -Om ** 2, Om ** 2, Om ** 2, Om ** 2))
    M['4D-lapse-shift'] = ([t, x, y, z], sp.Matrix(
        [[-(1 + x ** 2) + R(1, 4) * x ** 2 * y ** 2, R(1, 2) * x * y, 0, 0],
         [R(1, 2) * x * y, 1 + t ** 2, 0, 0],
         [0, 0, 1 + z ** 2, 0],
         [0, 0, 0, 2 + y]]))
    M['4D-nondiag-full'] = ([t, x, y, z], sp.Matrix(
        [[-(2 + x ** 2), R(1, 5) * t * y, R(1, 7) * z, R(1, 9) * x * z],
         [R(1, 5) * t * y, 2 + y ** 2, R(1, 4) * x * t, R(1, 6) * z],
         [R(1, 7) * z, R(1, 4) * x * t, 3 + t ** 2, R(1, 8) * x * y],
         [R(1, 9) * x * z, R(1, 6) * z, R(1, 8) * x * y, 2 + z ** 2 + x]]))
    return M


def points(coords, seed):
    R = sp.Rational
    base = [[R(7, 5), R(3, 7), R(5, 9), R(2, 3)],
            [R(9, 8), R(-4, 9), R(6, 7), R(1, 5)],
            [R(11, 6), R(5, 8), R(-2, 5), R(7, 9)]]
    out = []
    for row in base:
        row = [v + R(seed % 5, 37) for v in row]
        out.append({c: row[i] for i, c in enumerate(coords)})
    return out


def fingerprint(val, pts):
    return tuple(round(v, 9) for p in pts for v in symref.evaluate(val, p))


def explore(task):
    """BFS over request orders for one (metric, simplify)."""
    from aurel.coresymbolic import AurelCoreSymbolic
    name, simplify, max_depth, budget, seed = task
    coords, g = metrics()[name]
    pts = points(coords, seed)
    ref = symref.tensors(g, coords)
    refvals = {k: symref.evaluate_many(ref[k], coords, pts) for k in KEYS}
    t0 = time.time()
    bad = []
    seen_val = {}      # key -> fingerprint first seen (same key => same value)
    nstates = ntrans = 0
    capped = False

    def new_core(data):
        with quiet():
            c = AurelCoreSymbolic(coords, verbose=False, simplify=simplify)
        c.data = dict(data)
        return c
    init = {'gdown': g}
    frontier = [((), init)]
    seen = {frozenset(init)}
    first_hist = {}
    depth = 0
    while frontier and depth < max_depth:
        depth += 1
        nxt = []
        for hist, data in frontier:
            for k in KEYS:
                if time.time() - t0 > budget:
                    capped = True
                    break
                core = new_core(data)
                before = set(core.data)
                try:
                    with quiet():
                        val = core[k]
                except Exception as ex:     # noqa: BLE001
                    bad.append(('raised', k, list(hist), repr(ex)[:120]))
                    continue
                ntrans += 1
                h2 = hist + (k,)
                # every entry newly computed by this transition is checked
                for kk in set(core.data) - before:
                    got = symref.evaluate_many(core.data[kk], coords, pts)
                    want = refvals[kk]
                    ok = all(len(a) == len(b) and all(
                        abs(x - y) <= TOL * (1 + abs(y))
                        for x, y in zip(a, b)) for a, b in zip(got, want))
                    if not ok:
                        worst = max((abs(x - y), i) for a, b in zip(got, want)
                                    for i, (x, y) in enumerate(zip(a, b)))
                        bad.append(('wrong', kk, list(h2),
                                    f"component #{worst[1]} off by "
                                    f"{worst[0]:.3g}"))
                    # exact input, exact output: no floating-point number
                    # may appear in a symbolic result (the metrics of the
                    # menu contain none)
                    flat = symref.flatten(core.data[kk]) if not isinstance(
                        core.data[kk], sp.Expr) else [core.data[kk]]
                    if any(sp.sympify(e).atoms(sp.Float) for e in flat):
                        bad.append(('inexact', kk, list(h2),
                                    'floating-point coefficients in the '
                                    'symbolic result'))
                    fp = tuple(round(v, 8) for a in got for v in a)
                    if kk in seen_val and seen_val[kk][0] != fp:
                        bad.append(('order-dependent', kk, list(h2),
                                    f"differs from value after "
                                    f"{seen_val[kk][1]}"))
                    seen_val.setdefault(kk, (fp, list(h2)))
                if val is not core.data.get(k):
                    bad.append(('returned-not-cached', k, list(h2), ''))
                st = frozenset(core.data)
                if st not in seen:
                    seen.add(st)
                    nxt.append((h2, core.data))
                    first_hist[tuple(sorted(st))] = h2
            if capped:
                break
        frontier = nxt
        if capped:
            break
    return {'task': [name, simplify, max_depth], 'bad': bad,
            'states': len(seen), 'transitions': ntrans, 'capped': capped,
            'depth': depth, 'wall': round(time.time() - t0, 1)}


def plans(tier, seed):
    P = []
    small = ['2D-sphere', '2D-nondiag', '2D-nondiag-real',
             '2D-polar-positive', '2D-null', '3D-diag',
             '3D-nondiag-simple', '3D-chain', '4D-FLRW']
    big = ['3D-nondiag-full', '4D-conformally-flat', '4D-lapse-shift',
           '4D-nondiag-full']
    if tier == 'quick':
        for m in small:
            P.append((m, False, 10, 100, seed))
        for m in big:
            P.append((m, False, 1 if m == '4D-nondiag-full' else 2, 60,
                      seed))
        for m in ('2D-sphere', '2D-nondiag', '2D-nondiag-real', '2D-null',
                  '4D-FLRW'):
            P.append((m, True, 10, 100, seed))
        P.append(('3D-diag', True, 1, 60, seed))
        P.append(('3D-nondiag-simple', True, 2, 60, seed))
    else:
        for m in small + big:
            P.append((m, False, 10, 3000, seed))
        for m in small + ['4D-conformally-flat', '4D-lapse-shift']:
            P.append((m, True, 10, 3000, seed))
        P.append(('3D-nondiag-full', True, 2, 3000, seed))
    return P


def main(tier):
    run = runner.Run(PID, tier, "model_checking")
    symref.selftest()
    tasks = plans(tier, run.seed)
    results = runner.pmap(explore, tasks)
    states = trans = 0
    for t, r in zip(tasks, results):
        states += r['states']
        trans += r['transitions']
        run.seen(t[0], t[1])
        if r['capped']:
            run.cap(f"{t[0]} simplify={t[1]}: time budget {t[3]}s reached "
                    f"at depth {r['depth']} ({r['transitions']} transitions)")
        for b in r['bad']:
            diag = 'diagonal' if 'diag' in t[0] and 'nondiag' not in t[0] \
                or t[0] in ('2D-sphere', '4D-FLRW', '2D-polar-positive',
                            '4D-conformally-flat') else 'non-diagonal'
            run.violation(f"C15:{b[0]}:{b[1]}:simplify={t[1]}:{diag}",
                          f"metric {t[0]} simplify={t[1]} after {b[2]}: "
                          f"{b[1]} {b[0]} {b[3]}",
                          {'metric': t[0], 'simplify': t[1],
                           'history': b[2], 'key': b[1]})
        run.note(f"{t[0]} simplify={t[1]}: states={r['states']} "
                 f"transitions={r['transitions']} depth={r['depth']} "
                 f"wall={r['wall']}s capped={r['capped']}")
    run.sample({'metric': '2D-nondiag [[1+x^2, x y],[x y, 2+y^2]]',
                'simplify': False,
                'history': ['Riemann_uddd', 'Ricci_down', 'Einstein_down']})
    run.assume("agreement at 3 rational points per metric (exact "
               "substitution, 30 digits) with tolerance 1e-9")
    return run.finish({
        'states': states, 'transitions': trans,
        'traces_validated_against_impl': trans,
        'metric_flag_pairs': len(tasks),
        'rule': "state = cached-key set of AurelCoreSymbolic.data "
                "(snapshotted); transition = one real request; every newly "
                "computed entry compared with the independent sympy "
                "reference; same key must fingerprint identically in all "
                "states",
        'exhaustive': True,
    })


def replay(rec):
    from aurel.coresymbolic import AurelCoreSymbolic
    c = rec['case']
    coords, g = metrics()[c['metric']]
    pts = points(coords, rec.get('seed', 0))
    ref = symref.tensors(g, coords)
    with quiet():
        core = AurelCoreSymbolic(coords, verbose=False,
                                 simplify=c['simplify'])
    core.data['gdown'] = g
    for k in c['history']:
        with quiet():
            core[k]
    k = c['key']
    print('aurel    ', symref.evaluate_many(core.data[k], coords, pts[:1])[0][:12])
    print('reference', symref.evaluate_many(ref[k], coords, pts[:1])[0][:12])
    return 0
