"""Shared machinery of the GR lattice checks (C04, C05, C06, C10, C19):
building a spacetime from its descriptor, feeding its exact 3+1 data to a
fresh AurelCore, evaluating the jet reference in chunks, and the convergence
criterion of DESIGN section 6.
"""
import contextlib
import io

import numpy as np

from refs import fields, gr

CHUNK = 2048


def quiet():
    return contextlib.redirect_stdout(io.StringIO())


def make_spacetime(desc, seed):
    kind = desc[0]
    if kind == 'lattice':
        _, la, sh, me, td, lam = desc
        return fields.lattice(la, sh, me, td, Lambda=lam, seed=seed)
    if kind == 'scaled':
        # the lattice spacetime with the spatial metric multiplied by a^2
        # (a << 1: small determinant, large curvature - e.g. cosmological
        # data normalised to a = 1 today and read at high redshift)
        _, a, la, sh, me, td, lam = desc
        st = fields.lattice(la, sh, me, td, Lambda=lam, seed=seed)
        gf = st.gamma_f
        st.gamma_f = lambda t, x, y, z, m: [a * a * c
                                            for c in gf(t, x, y, z, m)]
        st.name = f"scaled({a}) {st.name}"
        return st
    if kind == 'mink':
        return fields.minkowski_mapped(seed=seed)
    if kind == 'ds':
        return fields.de_sitter()
    if kind == 'schw':
        return gr.schwarzschild_iso(1.0)
    if kind == 'ads':
        return fields.anti_de_sitter()
    if kind == 'poly':
        return fields.poly_spacetime(seed=seed)
    raise ValueError(desc)


def grid_param(desc, N):
    kind = desc[0]
    if kind == 'mink':
        # anisotropic spacing (dx : dy : dz = 45 : 40 : 36) on the same
        # periodic box: a per-axis spacing mix-up is invisible on the
        # cubic grids of the other families (kept moderate: the memory
        # of a task grows with the number of points)
        g = fields.grid(N)
        g['Ny'], g['Nz'] = (9 * N) // 8, (5 * N) // 4
        g['dy'], g['dz'] = 2 * np.pi / g['Ny'], 2 * np.pi / g['Nz']
        return g, 'periodic'
    if kind in ('lattice', 'scaled'):
        return fields.grid(N), 'periodic'
    if kind == 'ds':
        d = 2.0 / N
        return ({'Nx': N, 'Ny': N, 'Nz': N, 'xmin': -0.9, 'ymin': -1.1,
                 'zmin': -0.7, 'dx': d, 'dy': d, 'dz': d}, 'no boundary')
    if kind == 'poly':
        d = 2.0 / (N - 1)
        return ({'Nx': N, 'Ny': N, 'Nz': N, 'xmin': -1.0, 'ymin': -1.0,
                 'zmin': -1.0, 'dx': d, 'dy': d, 'dz': d}, 'no boundary')
    if kind in ('schw', 'ads'):
        d = 2.0 / N
        return ({'Nx': N, 'Ny': N, 'Nz': N, 'xmin': 2.0, 'ymin': 2.2,
                 'zmin': 1.8, 'dx': d, 'dy': d, 'dz': d}, 'no boundary')
    raise ValueError(desc)


def ref_chunks(st, t0, X, Y, Z, fn):
    """Evaluate fn(Ref) -> dict(name -> array (..., S)) chunk by chunk over
    the flattened points and reassemble to (..., Nx, Ny, Nz)."""
    shape = X.shape
    xs, ys, zs = X.ravel(), Y.ravel(), Z.ravel()
    parts = {}
    for a in range(0, xs.size, CHUNK):
        r = gr.Ref(st, t0, xs[a:a + CHUNK], ys[a:a + CHUNK], zs[a:a + CHUNK])
        for k, v in fn(r).items():
            parts.setdefault(k, []).append(np.asarray(v))
    out = {}
    for k, lst in parts.items():
        arr = np.concatenate(lst, axis=-1)
        out[k] = arr.reshape(arr.shape[:-1] + shape)
    return out


def inputs_fn(with_T=True):
    def fn(r):
        return r.aurel_inputs(with_T=with_T)
    return fn


def to_components(inp):
    """The same inputs in the other documented input style: metric,
    extrinsic curvature, shift and its time derivative by components."""
    out = {k: v for k, v in inp.items()
           if k not in ('gammadown3', 'Kdown3', 'betaup3', 'dtbetaup3')}
    for (i, j), n in zip(gr.SYM6, ['xx', 'xy', 'xz', 'yy', 'yz', 'zz']):
        out['g' + n] = inp['gammadown3'][i, j].copy()
        out['k' + n] = inp['Kdown3'][i, j].copy()
    for i, c in enumerate('xyz'):
        out['beta' + c] = inp['betaup3'][i].copy()
        out['dtbeta' + c] = inp['dtbetaup3'][i].copy()
    return out


# options documented as 'optional, also attribute' in AurelCore
ATTRIBUTE_OPTIONS = ('Lambda', 'vacuum', 'tetrad', 'lmax', 'center',
                     'extract_radii', 'interp_method')


def build_core(desc, seed, p, N, with_T=True, vacuum=False, extra_kw=None,
               inputs_extra=None, lambda_attr=False, components=False):
    """Fresh FiniteDifference + AurelCore holding the exact inputs (frozen).
    Returns (rel, st, (X, Y, Z), inputs)."""
    from aurel.core import AurelCore
    from aurel.finitedifference import FiniteDifference
    st = make_spacetime(desc, seed)
    param, boundary = grid_param(desc, N)
    X, Y, Z = fields.mesh(param)
    inp = ref_chunks(st, fields.T0, X, Y, Z, inputs_fn(with_T))
    kw = dict(verbose=False, Lambda=st.Lambda, vacuum=vacuum)
    kw.update(extra_kw or {})
    with quiet():
        fd = FiniteDifference(param, boundary=boundary, fd_order=p,
                              verbose=False)
        if lambda_attr:
            # 'Lambda : float, optional, also attribute': set after
            # construction instead of through the keyword
            late = {k: kw.pop(k) for k in list(kw) if k in ATTRIBUTE_OPTIONS}
            rel = AurelCore(fd, **kw)
            for k, v in late.items():
                setattr(rel, k, v)
        else:
            rel = AurelCore(fd, **kw)
    given = to_components(inp) if components else inp
    for k, v in given.items():
        rel.data[k] = v
    for k, v in (inputs_extra or {}).items():
        rel.data[k] = v
    rel.freeze_data()
    return rel, st, (X, Y, Z), inp


_TRIM = [0]


def set_trim(desc, p):
    """Errors of the one-sided, non-polynomial family ('ads') are judged
    away from the faces: within fd_order points of a face the
    twice-differentiated quantities are of lower order (the layer
    `cutoffmask2` exists for); every other family is judged on the whole
    grid."""
    _TRIM[0] = p if desc[0] == 'ads' else 0


def err(a, b, scale):
    a, b = np.asarray(a), np.asarray(b)
    if a.shape != b.shape:
        return float('inf')
    w = _TRIM[0]
    if w and a.ndim >= 3 and min(a.shape[-3:]) > 2 * w:
        a = a[..., w:-w, w:-w, w:-w]
        b = b[..., w:-w, w:-w, w:-w]
        if np.ndim(scale) >= 3:
            scale = np.asarray(scale)[..., w:-w, w:-w, w:-w]
    d = np.abs(a - b)
    if not np.all(np.isfinite(d)):
        return float('inf')
    return float(d.max() / scale)


def converges(e_lo, e_hi, p, floor=1e-9, cap=None, slack=1.5):
    """e_lo at N, e_hi at 2N.  True iff below round-off floor, or shrinking
    at (almost) the order of the scheme and below the absolute cap."""
    if not np.isfinite(e_hi) or not np.isfinite(e_lo):
        return False, 'non-finite'
    if e_hi <= floor:
        return True, 'round-off'
    if cap is not None and e_hi > cap:
        return False, f'error {e_hi:.2e} above cap {cap:.1e}'
    if e_lo <= 0:
        return False, 'error grew from zero'
    order = np.log2(e_lo / e_hi)
    if order >= p - slack:
        return True, f'order {order:.2f}'
    return False, f'observed order {order:.2f} < {p - slack} ' \
                  f'(e={e_lo:.2e}->{e_hi:.2e})'


# caps: two decades above the largest legitimate relative error measured on
# the unchanged tree at the finer resolution (N=32 periodic, one wavelength)
CAPS = {2: 3e-1, 4: 3e-2, 6: 3e-3, 8: 1e-3}


def lambda_attribute_dependence(desc, seed, p, N, keys, forward_values,
                                **build_kw):
    """Fresh instance with the cosmological constant (and every other
    option documented as 'also attribute': vacuum, tetrad, ...) assigned to
    the attribute after construction (same request order): every
    value must equal the keyword-style one.  {key: relative difference}."""
    rel, st, XYZ, inp = build_core(desc, seed, p, N, lambda_attr=True,
                                   **build_kw)
    out = {}
    with quiet():
        for k in keys:
            v = np.asarray(rel[k])
            f = np.asarray(forward_values[k])
            sc = max(float(np.abs(f).max()), 1e-3)
            out[k] = (float(np.abs(v - f).max()) / sc
                      if v.shape == f.shape else float('inf'))
    return out


def input_style_dependence(desc, seed, p, N, keys, forward_values,
                           **build_kw):
    """Fresh instance fed by components (gxx.., kxx.., betax.., dtbetax..)
    instead of arrays, keys requested in REVERSE order (so that the first
    request meets a cache holding nothing derived): every value must equal
    the array-style forward value.  {key: relative difference}."""
    rel, st, XYZ, inp = build_core(desc, seed, p, N, components=True,
                                   **build_kw)
    out = {}
    with quiet():
        for k in reversed(list(keys)):
            v = np.asarray(rel[k])
            f = np.asarray(forward_values[k])
            sc = max(float(np.abs(f).max()), 1e-3)
            out[k] = (float(np.abs(v - f).max()) / sc
                      if v.shape == f.shape else float('inf'))
    return out


def order_dependence(desc, seed, p, N, keys, forward_values, **build_kw):
    """Second fresh instance, same inputs, keys requested in REVERSE order:
    every value must agree with the forward-order one (same formulas, same
    inputs) to round-off, or the two orders differ at most by the
    discretisation error of a branch guard (judged by the caller).  Returns
    {key: relative difference}."""
    rel, st, XYZ, inp = build_core(desc, seed, p, N, **build_kw)
    out = {}
    with quiet():
        for k in reversed(list(keys)):
            v = np.asarray(rel[k])
            f = np.asarray(forward_values[k])
            sc = max(float(np.abs(f).max()), 1e-3)
            out[k] = (float(np.abs(v - f).max()) / sc
                      if v.shape == f.shape else float('inf'))
    return out


# ---- differential oracles judged by the property, not by bit-equality ----
# order / style / attribute variants are first compared tightly with the
# forward values (cheap; all equal on a tree where nothing depends on them).
# A difference above the tight tolerance is not yet a violation: aurel picks
# between formulas that agree only up to the discretisation error according
# to what happens to be cached, and a legitimate change of the code may move
# that choice.  The variant is then replayed at both resolutions and its
# error against the analytic reference is judged exactly like the forward
# error (`judge` of the calling check).
ALT_KINDS = {'order': dict(),
             'style': dict(components=True),
             'lamattr': dict(lambda_attr=True)}


def alt_values(kind, desc, seed, p, N, keys, **build_kw):
    """Values of `keys` on a fresh instance of the given variant, requested
    in the order the tight comparison used (reverse, forward for lamattr)."""
    rel, st, XYZ, inp = build_core(desc, seed, p, N, **ALT_KINDS[kind],
                                   **build_kw)
    seq = list(keys) if kind == 'lamattr' else list(reversed(list(keys)))
    out = {}
    with quiet():
        for k in seq:
            out[k] = np.array(rel[k], copy=True)
    return out


def alt_errors(res, desc, seed, p, Ns, keys, ref_scale, tol=None,
               **build_kw):
    """For every variant in res[kind] with a difference above its tight
    tolerance: errors of the variant's values against the reference at both
    resolutions, res['alt_err'][kind][key] = [e_lo, e_hi].
    ref_scale(N) -> {key: (reference array, scale)} exactly as used for the
    forward error; only called when a variant differs."""
    tol = tol or {}
    store = {}
    for kind in ALT_KINDS:
        limit = tol.get(kind, 1e-12 if kind == 'lamattr' else 1e-9)
        bad = [k for k, d in res.get(kind, {}).items() if not d <= limit]
        if not bad:
            continue
        errs = {k: [] for k in bad}
        for N in Ns:
            if N not in store:
                store[N] = ref_scale(N)
            vals = alt_values(kind, desc, seed, p, N, keys, **build_kw)
            for k in bad:
                if k not in store[N]:
                    errs[k].append(float('inf'))
                    continue
                refk, sc = store[N][k]
                if refk is None:        # the reference is zero
                    refk = np.zeros_like(vals[k])
                errs[k].append(err(vals[k], refk, sc))
        res.setdefault('alt_err', {})[kind] = errs
    return res


def alt_verdict(res, kind, key, judge_err):
    """(ok, why) for a variant difference above the tight tolerance: the
    variant's own errors against the reference, judged like forward ones."""
    ae = res.get('alt_err', {}).get(kind, {}).get(key)
    if not ae or len(ae) < 2:
        return False, "no reference comparison available"
    ok, why = judge_err(key, ae[0], ae[1])
    return ok, f"variant errors {ae[0]:.2e},{ae[1]:.2e}: {why}"
