"""C05 - spatial curvature, covariant, divergence, curl and Lie derivatives.

E2 over the spacetime lattice (metric and shift features) x helper x every
supported indexing x weights x fd_order x resolution pair; oracle = textbook
definitions applied to exact test-field jets (R1).
"""
import itertools

import numpy as np

from mc import runner
from refs import fields
from refs.jet import M, grads, values
from checks import grcommon as gc

PID = "C05"
WEIGHTS = (0, 1 / 6, -2 / 3, 2 / 3, 1)
COVD_IDX = ('', 'u', 'd', 'uu', 'dd', 'ud', 'du')
DIV_IDX = ('u', 'd', 'uu', 'ud', 'du', 'dd')
LIE_IDX = ('', 's_u', 's_d', 'st_u', 'st_d', 's_uu', 's_ud', 's_du', 's_dd')
CURV = ('s_Gamma_udd3', 's_Riemann_uddd3', 's_Riemann_down3',
        's_Ricci_down3', 's_RicciS', 's_Gamma_udd3_bssnok', 's_Gamma_bssnok',
        's_Ricci_down3_bssnok', 's_Ricci_down3_phi', 's_RicciS_bssnok')


def levi3(det):
    e = np.zeros((3, 3, 3) + det.shape)
    for p in itertools.permutations(range(3)):
        e[p] = np.linalg.det(np.eye(3)[list(p)]) * np.sqrt(det)
    return e


def covd_ref(f, df, idx, Gam):
    """Spatial covariant derivative, derivative index first."""
    out = df.copy()
    for pos, ud in enumerate(idx):
        # index position `pos` of f (after the derivative index c)
        letters = 'ab'[:len(idx)]
        tgt = letters[pos]
        if ud == 'u':      # + Gamma^tgt_{c s} f^{..s..}
            src = letters.replace(tgt, 's')
            out = out + np.einsum(f'{tgt}cs...,{src}...->c{letters}...',
                                  Gam, f)
        else:              # - Gamma^s_{c tgt} f_{..s..}
            src = letters.replace(tgt, 's')
            out = out - np.einsum(f'sc{tgt}...,{src}...->c{letters}...',
                                  Gam, f)
    return out


def ref_fn_factory(seed, poly=False):
    def ref_fn(r):
        t, x, y, z = r.coords
        sc, v3, v4, tn = (fields.poly_test_fields(seed) if poly
                          else fields.test_fields(seed))
        f, V, U, T = sc(t, x, y, z, M), v3(t, x, y, z, M), \
            v4(t, x, y, z, M), tn(t, x, y, z, M)
        sp = r.spatial()
        spc = r.spatial_conformal()
        c4 = r.curvature4()
        Gam, gu = sp['Gamma'], sp['gammaup']
        fv, df = f.v, f.g[1:]
        Vv, dV = values(V), grads(V)[1:]
        Uv, dU = values(U), grads(U)
        Tv, dT = values(T), grads(T)[1:]
        b = values(r.beta)
        db = grads(r.beta)[1:]          # [k, i] = d_k beta^i
        dtb = grads(r.beta)[0]
        divb = np.einsum('kk...->...', db)
        out = {'in:f': fv, 'in:V': Vv, 'in:U': Uv, 'in:T': Tv,
               'in:dtU': dU[0], 'in:dtf': f.g[0]}
        # covariant derivatives
        cov = {'': df}
        for idx in ('u', 'd'):
            cov[idx] = covd_ref(Vv, dV, idx, Gam)
        for idx in ('uu', 'dd', 'ud', 'du'):
            cov[idx] = covd_ref(Tv, dT, idx, Gam)
        for idx, v in cov.items():
            out['covd:' + idx] = v
        # divergences
        out['div:u'] = np.einsum('aa...->...', cov['u'])
        out['div:d'] = np.einsum('ab...,ab...->...', gu, cov['d'])
        out['div:uu'] = np.einsum('aab...->b...', cov['uu'])
        out['div:ud'] = np.einsum('aab...->b...', cov['ud'])
        out['div:du'] = np.einsum('aba...->b...', cov['du'])
        out['div:dd'] = np.einsum('ab...,abc...->c...', gu, cov['dd'])
        # curl of a rank-2 covariant tensor: sym( eps^{cd}_a D_c T_{bd} )
        eps = levi3(sp['det'])
        eps_uud = np.einsum('ce...,df...,efa...->cda...', gu, gu, eps)
        cu = np.einsum('cda...,cbd...->ab...', eps_uud, cov['dd'])
        out['curl:dd'] = 0.5 * (cu + np.einsum('ab...->ba...', cu))
        # spacetime covariant derivative
        G4 = c4['Gamma']
        out['stcovd:'] = np.concatenate([f.g[0][None], df], axis=0)
        out['stcovd:u'] = dU + np.einsum('nml...,l...->mn...', G4, Uv)
        out['stcovd:d'] = dU - np.einsum('lmn...,l...->mn...', G4, Uv)
        # Lie derivatives along the shift
        adv = lambda d: np.einsum('k...,k...->...', b, d)   # noqa: E731
        lie = {}
        lie[''] = np.einsum('k...,k...->...', b, df)
        lie['s_u'] = (np.einsum('k...,ki...->i...', b, dV)
                      - np.einsum('k...,ki...->i...', Vv, db))
        lie['s_d'] = (np.einsum('k...,ki...->i...', b, dV)
                      + np.einsum('k...,ik...->i...', Vv, db))
        bU = np.einsum('k...,km...->m...', b, dU[1:])
        lt = bU[0]
        ls = (bU[1:] - dtb * Uv[0]
              - np.einsum('k...,ki...->i...', Uv[1:], db))
        lie['st_u'] = np.concatenate([lt[None], ls], axis=0)
        lt = bU[0] + np.einsum('k...,k...->...', dtb, Uv[1:])
        ls = bU[1:] + np.einsum('k...,ik...->i...', Uv[1:], db)
        lie['st_d'] = np.concatenate([lt[None], ls], axis=0)
        bT = np.einsum('s...,sjk...->jk...', b, dT)
        lie['s_uu'] = (bT - np.einsum('sj...,sk...->jk...', db, Tv)
                       - np.einsum('sk...,js...->jk...', db, Tv))
        lie['s_dd'] = (bT + np.einsum('js...,sk...->jk...', db, Tv)
                       + np.einsum('ks...,js...->jk...', db, Tv))
        lie['s_ud'] = (bT - np.einsum('sj...,sk...->jk...', db, Tv)
                       + np.einsum('ks...,js...->jk...', db, Tv))
        lie['s_du'] = (bT + np.einsum('js...,sk...->jk...', db, Tv)
                       - np.einsum('sk...,js...->jk...', db, Tv))
        src = {'': fv, 's_u': Vv, 's_d': Vv, 'st_u': Uv, 'st_d': Uv,
               's_uu': Tv, 's_ud': Tv, 's_du': Tv, 's_dd': Tv}
        for idx, v in lie.items():
            for w in WEIGHTS:
                out[f'Lie:{idx}:{w:.4f}'] = v + w * divb * src[idx]
        # curvature of gamma and of the conformal metric
        out['s_Gamma_udd3'] = Gam
        out['s_Riemann_uddd3'] = sp['Riemann_uddd']
        out['s_Riemann_down3'] = sp['Riemann_down']
        out['s_Ricci_down3'] = sp['Ricci']
        out['s_RicciS'] = sp['RicciS']
        out['s_Gamma_udd3_bssnok'] = spc['Gamma']
        out['s_Gamma_bssnok'] = np.einsum('jk...,ijk...->i...',
                                          spc['gammaup'], spc['Gamma'])
        out['s_Ricci_down3_bssnok'] = spc['Ricci']
        out['s_Ricci_down3_phi'] = sp['Ricci'] - spc['Ricci']
        out['s_RicciS_bssnok'] = spc['RicciS']
        out['_scale_curv'] = (np.abs(sp['dGamma']).max(axis=(0, 1, 2, 3))
                              + np.abs(Gam).max(axis=(0, 1, 2)) ** 2
                              + np.abs(spc['dGamma']).max(axis=(0, 1, 2, 3)))
        return out
    return ref_fn


def case(task):
    desc, p, Ns, seed = task
    res = {'task': [list(desc), p, list(Ns)], 'err': {}, 'refmax': {},
           'raised': None}
    try:
        for N in Ns:
            rel, st, (X, Y, Z), inp = gc.build_core(desc, seed, p, N,
                                                    with_T=False)
            ref = gc.ref_chunks(st, fields.T0, X, Y, Z, ref_fn_factory(
                seed, poly=desc[0] == 'poly'))
            f, V, U, T = ref['in:f'], ref['in:V'], ref['in:U'], ref['in:T']
            got = {}
            with gc.quiet():
                got['covd:'] = rel.s_covd(f, '')
                for idx in ('u', 'd'):
                    got['covd:' + idx] = rel.s_covd(V, idx)
                for idx in ('uu', 'dd', 'ud', 'du'):
                    got['covd:' + idx] = rel.s_covd(T, idx)
                for idx in ('u', 'd'):
                    got['div:' + idx] = rel.s_div(V, idx)
                for idx in ('uu', 'ud', 'du', 'dd'):
                    got['div:' + idx] = rel.s_div(T, idx)
                got['curl:dd'] = rel.s_curl(T, 'dd')
                got['stcovd:'] = rel.st_covd(f, ref['in:dtf'], '')
                got['stcovd:u'] = rel.st_covd(U, ref['in:dtU'], 'u')
                got['stcovd:d'] = rel.st_covd(U, ref['in:dtU'], 'd')
                src = {'': f, 's_u': V, 's_d': V, 'st_u': U, 'st_d': U,
                       's_uu': T, 's_ud': T, 's_du': T, 's_dd': T}
                for idx in LIE_IDX:
                    for w in WEIGHTS:
                        got[f'Lie:{idx}:{w:.4f}'] = rel.Lie_beta(
                            src[idx].copy(), idx, weight=w)
                # first branch: Ricci without Riemann in the cache
                got['s_Ricci_down3'] = rel['s_Ricci_down3'].copy()
                for k in CURV:
                    if k != 's_Ricci_down3':
                        got[k] = rel[k]
                # second branch: Riemann is cached now
                rel.data.pop('s_Ricci_down3', None)
                rel.last_accessed.pop('s_Ricci_down3', None)
                rel['s_Riemann_down3']
                assert 's_Riemann_down3' in rel.data
                got['s_Ricci_down3/from-Riemann'] = rel.s_Ricci_down3()
                # metric compatibility on aurel's own metric
                got['ident:Dgamma'] = rel.s_covd(rel['gammadown3'], 'dd')
                got['ident:Dgammaup'] = rel.s_covd(rel['gammaup3'], 'uu')
                got['ident:split'] = (rel['s_Ricci_down3_bssnok']
                                      + rel['s_Ricci_down3_phi']
                                      - rel['s_Ricci_down3'])
            ref['s_Ricci_down3/from-Riemann'] = ref['s_Ricci_down3']
            scurv = max(float(ref['_scale_curv'].max()), 1e-3)
            for k in ('ident:Dgamma', 'ident:Dgammaup', 'ident:split'):
                ref[k] = np.zeros_like(got[k])
            for k, v in got.items():
                rmax = float(np.abs(ref[k]).max())
                if k.startswith('ident:') or k in CURV or \
                        k.startswith('s_Ricci'):
                    sc = max(rmax, scurv if 'R' in k or 'split' in k
                             else 1e-2)
                    # covariant constancy: on the scale of the tensor that
                    # is differentiated (gamma^ij ~ 1/a^2 on scaled data)
                    if k == 'ident:Dgamma':
                        sc = max(sc, 1e-2 * float(np.abs(
                            rel['gammadown3']).max()))
                    elif k == 'ident:Dgammaup':
                        sc = max(sc, 1e-2 * float(np.abs(
                            rel['gammaup3']).max()))
                else:
                    sc = max(rmax, 1e-2)
                res['err'].setdefault(k, []).append(gc.err(v, ref[k], sc))
                res['refmax'][k] = rmax if not k.startswith('ident') else sc
            if not np.array_equal(T, ref['in:T']):
                res['raised'] = 'helper modified its argument'
    except Exception:      # noqa: BLE001
        import traceback
        res['raised'] = traceback.format_exc()[-700:]
    return res


def error_behaviour():
    """Unsupported indexing must raise, never return."""
    from aurel.core import AurelCore
    from aurel.finitedifference import FiniteDifference
    bad = []
    with gc.quiet():
        fd = FiniteDifference(fields.grid(6), boundary='periodic',
                              fd_order=2, verbose=False)
        rel = AurelCore(fd, verbose=False)
    S = (6, 6, 6)
    calls = [('s_covd', (np.zeros((3,) + S), 'x')),
             ('s_covd', (np.zeros((3, 3) + S), 'ux')),
             ('s_covd', (np.zeros((3, 3, 3) + S), 'uuu')),
             ('st_covd', (np.zeros((4,) + S), np.zeros((4,) + S), 'x')),
             ('st_covd', (np.zeros((4, 4) + S), np.zeros((4, 4) + S), 'uu')),
             ('s_div', (np.zeros((3,) + S), 'x')),
             ('s_curl', (np.zeros((3, 3) + S), 'uu')),
             ('Lie_beta', (np.zeros((3,) + S), 'u')),
             ('Lie_beta', (np.zeros((3,) + S), 's_x')),
             ('Lie_beta', (np.zeros((4, 4) + S), 'st_uu')),
             ('Lie_beta', (np.zeros((3, 3, 3) + S), 's_uuu')),
             ('Lie_beta', (np.zeros((4,) + S), 's_u'))]
    for name, args in calls:
        try:
            with gc.quiet():
                getattr(rel, name)(*args)
            bad.append((name, args[-1]))
        except Exception:     # noqa: BLE001
            pass
    return bad, len(calls)


def lapse_case(task):
    """Purely spatial operators do not depend on the lapse: the same metric,
    shift and test fields with the lapse multiplied by 1e-4, by -1, and
    replaced by 1 give the same covariant derivatives, divergence and curl.
    Also: an index pattern a helper does not support is refused with a
    ValueError."""
    desc, p, N, seed = task
    out = {'task': [list(desc), p, N], 'bad': []}
    try:
        rel0, st, (X, Y, Z), inp = gc.build_core(desc, seed, p, N,
                                                 with_T=False)
        ref = gc.ref_chunks(st, fields.T0, X, Y, Z, ref_fn_factory(
            seed, poly=False))
        V, T = ref['in:V'], ref['in:T']

        def spatial(rel):
            with gc.quiet():
                return {'covd:u': rel.s_covd(V, 'u'),
                        'covd:dd': rel.s_covd(T, 'dd'),
                        'div:ud': rel.s_div(T, 'ud'),
                        'curl:dd': rel.s_curl(T, 'dd')}
        base = spatial(rel0)
        for name, a in (('1e-4*alpha', 1e-4 * inp['alpha']),
                        ('-alpha', -inp['alpha']),
                        ('alpha=1', np.ones_like(inp['alpha']))):
            rel, _, _, _ = gc.build_core(desc, seed, p, N, with_T=False,
                                         inputs_extra={'alpha': a})
            for k, v in spatial(rel).items():
                sc = max(float(np.abs(base[k]).max()), 1e-3)
                d = float(np.abs(v - base[k]).max() / sc)
                if not d <= 1e-9:
                    out['bad'].append(('lapse-dependent', k, name, d))
        for fn, args in ((rel0.s_div, (T, 'xx')), (rel0.s_curl, (T, 'uu')),
                         (rel0.st_covd, (ref['in:U'], ref['in:dtU'], 'x')),
                         (rel0.s_covd, (T, 'zz'))):
            try:
                with gc.quiet():
                    fn(*args)
                out['bad'].append(('unsupported-indexing-accepted',
                                   fn.__name__, args[-1], 0.0))
            except ValueError:
                pass
            except Exception as ex:      # noqa: BLE001
                out['bad'].append(('unsupported-indexing-raises-'
                                   + type(ex).__name__, fn.__name__,
                                   args[-1], 0.0))
    except Exception:      # noqa: BLE001
        import traceback
        out['bad'].append(('raised', traceback.format_exc()[-300:], '', 0.0))
    return out


def build_tasks(tier, seed):
    tasks = []
    cells = [('L0', 'S0', 'G0', 'D0'), ('L0', 'S2', 'G1', 'D0'),
             ('L0', 'S3', 'G2', 'D1'), ('L1', 'S1', 'G2', 'D0')]
    if tier == 'thorough':
        cells = [c for c in fields.full_lattice() if c[0] != 'L2']
    for c in cells:
        tasks.append((('lattice',) + c + (0.0,), 8, (16, 32), seed))
    for p in (2, 4, 6):
        tasks.append((('lattice', 'L1', 'S3', 'G2', 'D1', 0.0), p, (16, 32),
                      seed))
    tasks.append((('mink',), 8, (16, 32), seed))
    # badly scaled spatial metric (gamma -> a^2 gamma)
    tasks.append((('scaled', 0.02, 'L1', 'S3', 'G2', 'D1', 0.0), 8, (16, 32),
                  seed))
    # exact skeleton: polynomial data, stencils exact, one resolution
    for p in (2, 4, 8):
        tasks.append((('poly',), p, (13, 14), seed))
    return tasks


def main(tier):
    run = runner.Run(PID, tier, "exploration")
    tasks = build_tasks(tier, run.seed)
    results = runner.pmap(case, tasks)
    ltasks = [(('lattice', 'L1', 'S3', 'G2', 'D1', 0.0), 4, 16, run.seed),
              (('lattice', 'L2', 'S2', 'G1', 'D0', 0.0), 2, 12, run.seed)]
    for r in runner.pmap(lapse_case, ltasks, workers=2):
        run.seen(('lapse',) + tuple(map(str, r['task'])))
        for b in r['bad']:
            run.violation(f"C05:{b[0]}:{b[1]}",
                          f"{r['task']}: {b}"[:300], {'lapse': r['task']})
    worst = {}
    for t, r in zip(tasks, results):
        desc, p, Ns, seed = t
        tag = ':'.join(str(x) for x in desc) + f":p={p}"
        if r['raised']:
            run.violation(f"C05:raised:{desc[0]}", f"{tag}: {r['raised']}",
                          {'task': r['task']})
            continue
        for k, (e_lo, e_hi) in r['err'].items():
            nontrivial = r['refmax'][k] > 1e-6
            run.seen(desc, p, k, nontrivial)
            run.count('comparisons')
            if nontrivial:
                run.count('nontrivial_comparisons')
            if desc[0] == 'poly':
                # gamma^{ij} and the Christoffels are rational functions:
                # finite differences of them are not exact
                exact = not (k in CURV or k.startswith('s_Ricci')
                             or k in ('ident:split', 'ident:Dgammaup'))
                if exact:
                    ok = e_lo <= 1e-10 and e_hi <= 1e-10
                    why = (f"exact skeleton (polynomial data): "
                           f"{e_lo:.2e},{e_hi:.2e}")
                else:
                    continue      # curvature of rational Gammas: not exact
            else:
                ok, why = gc.converges(e_lo, e_hi, p, cap=gc.CAPS[p])
            if ok and p == 8:
                worst[k.split(':')[0]] = max(worst.get(k.split(':')[0], 0.0),
                                             e_hi)
            if not ok:
                kk = k if not k.startswith('Lie') else ':'.join(
                    k.split(':')[:2]) + (':weighted' if float(
                        k.split(':')[2]) else ':w0')
                run.violation(f"C05:{kk}:{desc[0]}", f"{tag}: {k}: {why}",
                              {'task': r['task'], 'key': k,
                               'errors': [e_lo, e_hi]})
    bad, ncalls = error_behaviour()
    for name, idx in bad:
        run.violation(f"C05:no-error:{name}:{idx}",
                      f"{name}(..., {idx!r}) returned instead of raising",
                      {'call': name, 'indexing': idx})
    run.sample({'spacetime': 'lattice L0 S3 G2 D1', 'helpers':
                {'s_covd': COVD_IDX, 's_div': DIV_IDX, 's_curl': ['dd'],
                 'st_covd': ['', 'u', 'd'], 'Lie_beta': LIE_IDX,
                 'weights': WEIGHTS}, 'keys': CURV})
    run.sample({'largest relative error at N=32, order 8': worst})
    run.assume("index conventions as documented: 'u' upper, 'd' lower, "
               "derivative index first; curl(T)_ab = sym eps^{cd}_a D_c T_bd")
    return run.finish({
        'evaluations': run.counters.get('comparisons', 0) + ncalls,
        'distinct_nontrivial': run.counters.get('nontrivial_comparisons', 0),
        'rule': "one evaluation = (cell, fd_order, helper+indexing+weight or "
                "curvature key) at two resolutions; non-trivial = reference "
                "not identically zero",
        'cases': len(tasks), 'error_calls': ncalls,
        'worst_rel_error_N32_order8': worst, 'exhaustive': True,
    })


def replay(rec):
    c = rec['case']
    if 'task' not in c:
        print(error_behaviour())
        return 0
    t = c['task']
    r = case((tuple(t[0]), t[1], tuple(t[2]), rec.get('seed', 0)))
    for k, e in r['err'].items():
        print(k, e)
    print(r['raised'])
    return 0
