"""C04 - 4D connection and curvature from 3+1 data match their definitions.

E2: spacetime feature lattice x fd_order x resolution pair; oracle = textbook
4D tensors from exact metric jets (R1); the error must vanish at the order of
the scheme (or be at round-off).
"""
import numpy as np

from mc import runner
from refs import fields
from checks import grcommon as gc

PID = "C04"
ALGEBRAIC = ('gdown4', 'gup4', 'gdet')
KEYS = ALGEBRAIC + ('st_Gamma_udd4', 'st_Riemann_down4', 'st_Riemann_uddd4',
                    'st_Riemann_uudd4', 'st_Ricci_down4', 'st_RicciS',
                    'Einsteindown4', 'Kretschmann')
REFNAME = {'gdown4': 'gdown4', 'gup4': 'gup4', 'gdet': 'gdet',
           'st_Gamma_udd4': 'Gamma', 'st_Riemann_down4': 'Riemann_down',
           'st_Riemann_uddd4': 'Riemann_uddd',
           'st_Riemann_uudd4': 'Riemann_uudd', 'st_Ricci_down4': 'Ricci',
           'st_RicciS': 'RicciS', 'Einsteindown4': 'Einstein',
           'Kretschmann': 'Kretschmann'}


def ref_fn(r):
    c = r.curvature4()
    out = {k: c[v] for k, v in REFNAME.items()}
    out['_dGamma'] = c['dGamma']
    return out


def key_scale(k, rmax, s_curv):
    if k in ALGEBRAIC:
        return max(rmax, 1e-300)
    if k == 'st_Gamma_udd4':
        return max(rmax, 1e-3)
    if k == 'Kretschmann':
        return max(rmax, s_curv ** 2)
    return max(rmax, s_curv)


def case(task):
    desc, p, with_T, vacuum, Ns, seed = task
    res = {'task': [list(desc), p, with_T, vacuum, list(Ns)], 'err': {},
           'scale': {}, 'refmax': {}, 'raised': None}
    gc.set_trim(desc, p)
    try:
        for N in Ns:
            rel, st, (X, Y, Z), inp = gc.build_core(
                desc, seed, p, N, with_T=with_T, vacuum=vacuum)
            ref = gc.ref_chunks(st, fields.T0, X, Y, Z, ref_fn)
            s_curv = float(np.abs(ref['_dGamma']).max()
                           + np.abs(ref['st_Gamma_udd4']).max() ** 2)
            fwd = {}
            with gc.quiet():
                for k in KEYS:
                    val = rel[k]
                    fwd[k] = np.array(val, copy=True)
                    rmax = float(np.abs(ref[k]).max())
                    sc = key_scale(k, rmax, s_curv)
                    res['err'].setdefault(k, []).append(
                        gc.err(val, ref[k], sc))
                    res['scale'][k] = sc
                    res['refmax'][k] = rmax
            # algebraic symmetries of the returned Riemann tensor on
            # non-uniform data (they hold up to the discretisation error)
            R = fwd['st_Riemann_down4']
            for nm, T in (('sym:ab', R + np.einsum('abcd...->bacd...', R)),
                          ('sym:cd', R + np.einsum('abcd...->abdc...', R)),
                          ('sym:pair', R - np.einsum('abcd...->cdab...', R)),
                          ('sym:cyclic',
                           R + np.einsum('abcd...->acdb...', R)
                           + np.einsum('abcd...->adbc...', R))):
                res['err'].setdefault(nm, []).append(
                    gc.err(T, np.zeros_like(T), max(s_curv, 1e-12)))
                res['scale'][nm] = s_curv
                res['refmax'][nm] = s_curv
            if N == Ns[0]:
                res['order'] = gc.order_dependence(
                    desc, seed, p, N, KEYS, fwd, with_T=with_T,
                    vacuum=vacuum)
                res['style'] = gc.input_style_dependence(
                    desc, seed, p, N, KEYS, fwd, with_T=with_T, vacuum=vacuum)
                if st.Lambda != 0:
                    res['lamattr'] = gc.lambda_attribute_dependence(
                        desc, seed, p, N, KEYS, fwd, with_T=with_T,
                        vacuum=vacuum)
        def ref_scale(N):
            rel, st, (X, Y, Z), inp = gc.build_core(
                desc, seed, p, N, with_T=with_T, vacuum=vacuum)
            ref = gc.ref_chunks(st, fields.T0, X, Y, Z, ref_fn)
            s_curv = float(np.abs(ref['_dGamma']).max()
                           + np.abs(ref['st_Gamma_udd4']).max() ** 2)
            return {k: (ref[k], key_scale(k, float(np.abs(ref[k]).max()),
                                          s_curv)) for k in KEYS}
        # a variant that differs from the forward values is judged against
        # the reference like them (grcommon.alt_errors)
        gc.alt_errors(res, desc, seed, p, Ns, KEYS, ref_scale,
                      with_T=with_T, vacuum=vacuum)
    except Exception as ex:      # noqa: BLE001
        import traceback
        res['raised'] = traceback.format_exc()[-600:]
    return res


def build_tasks(tier, seed):
    tasks = []
    corners = fields.quick_corners()
    if tier == 'quick':
        for i, c in enumerate(corners):
            lam = 0.3 if i % 2 else 0.0
            tasks.append((('lattice',) + c + (lam,), 8, True, False,
                          (16, 32), seed))
        # lower orders on the fully general corner
        for p in (2, 4, 6):
            tasks.append((('lattice', 'L2', 'S3', 'G2', 'D1', 0.3), p, True,
                          False, (16, 32), seed))
    else:
        for c in fields.full_lattice():
            for lam in (0.0, 0.3):
                tasks.append((('lattice',) + c + (lam,), 8, True, False,
                              (16, 32), seed))
        for c in corners:
            for p in (2, 4, 6):
                tasks.append((('lattice',) + c + (0.3,), p, True, False,
                              (16, 32), seed))
    # badly scaled: gamma -> a^2 gamma (det gamma ~ 1e-10, curvature ~ 1/a^2)
    tasks.append((('scaled', 0.02, 'L2', 'S3', 'G2', 'D1', 0.3), 8, True,
                  False, (16, 32), seed))
    tasks.append((('scaled', 30.0, 'L1', 'S2', 'G2', 'D1', 0.0), 4, True,
                  False, (16, 32), seed))
    # exact families
    for p in ((4, 8) if tier == 'quick' else (2, 4, 6, 8)):
        tasks.append((('mink',), p, True, False, (16, 32), seed))
        tasks.append((('mink',), p, False, True, (16, 32), seed))
        tasks.append((('mink',), p, False, False, (16, 32), seed))
        tasks.append((('ds',), p, True, False, (14, 20), seed))
        # vacuum option ('no matter') together with a cosmological constant
        tasks.append((('ds',), p, False, True, (14, 20), seed))
    # anti-de Sitter: Lambda < 0, with and without the vacuum option
    tasks.append((('ads',), 4, False, True, (16, 32), seed))
    tasks.append((('ads',), 4, True, False, (16, 32), seed))
    tasks.append((('schw',), 4, True, False, (16, 32), seed))
    tasks.append((('schw',), 4, False, True, (16, 32), seed))
    return tasks


def judge(run, task, res):
    desc, p, with_T, vacuum, Ns, seed = task
    name = ':'.join(str(x) for x in desc)
    tag = f"{name}:p={p}:T={int(with_T)}:vac={int(vacuum)}"
    if res['raised']:
        run.violation(f"C04:raised:{desc[0]}", f"{tag}: {res['raised']}",
                      {'task': res['task']})
        return
    exact = desc[0] == 'ds'

    def judge_err(k, e_lo, e_hi):
        if k in ALGEBRAIC or exact:
            return (e_lo <= 1e-9 and e_hi <= 1e-9,
                    f"algebraic/exact-stencil key: rel err {e_lo:.2e},"
                    f"{e_hi:.2e}")
        cap = gc.CAPS[p] * (30 if desc[0] in ('schw', 'scaled', 'ads')
                            else 1)
        return gc.converges(e_lo, e_hi, p, cap=cap)

    for kind, sig, limit, text in (
            ('lamattr', 'Lambda-as-attribute', 1e-12,
             "the cosmological constant is assigned to rel.Lambda after "
             "construction instead of passed as a keyword"),
            ('style', 'input-style', 1e-9,
             "metric, curvature and shift are given by components instead "
             "of arrays (fresh instance, reverse request order)"),
            ('order', 'order-dependent', 1e-9,
             "the same keys are requested in reverse order on a fresh "
             "instance")):
        for k, d in res.get(kind, {}).items():
            run.count({'lamattr': 'lambda_attribute_comparisons',
                       'style': 'input_style_comparisons',
                       'order': 'order_comparisons'}[kind])
            if d <= limit:
                continue
            ok, why = gc.alt_verdict(res, kind, k, judge_err)
            if ok:
                run.count('variant_differs_but_converges')
                continue
            run.violation(f"C04:{sig}:{k}",
                          f"{tag}: {k} differs by {d:.2e} (relative) when "
                          f"{text}, and the variant does not converge to "
                          f"the 4D definition either ({why})",
                          {'task': res['task'], 'key': k})
    for k, (e_lo, e_hi) in res['err'].items():
        nontrivial = res['refmax'][k] > 1e-6
        run.seen(desc, p, with_T, vacuum, k, nontrivial)
        if nontrivial:
            run.count('nontrivial_comparisons')
        run.count('comparisons')
        ok, why = judge_err(k, e_lo, e_hi)
        if not ok:
            run.violation(f"C04:key={k}:{desc[0]}",
                          f"{tag}: {k} does not converge to the 4D "
                          f"definition: {why}",
                          {'task': res['task'], 'key': k,
                           'errors': [e_lo, e_hi]})
        else:
            run.count('ok:' + why.split(' ')[0])
    return


def main(tier):
    run = runner.Run(PID, tier, "exploration")
    tasks = build_tasks(tier, run.seed)
    results = runner.pmap(case, tasks)
    worst = {}
    for t, r in zip(tasks, results):
        judge(run, t, r)
        if not r['raised'] and t[0][0] in ('lattice', 'mink') and t[1] == 8:
            for k, e in r['err'].items():
                worst[k] = max(worst.get(k, 0.0), e[1])
    run.sample({'spacetime': 'lattice L2 S3 G2 D1 Lambda=0.3', 'fd_order': 8,
                'N': [16, 32], 'keys': list(KEYS)})
    run.sample({'largest relative error at N=32, order 8, per key': worst})
    run.assume("periodic smooth data with one wavelength per box: N=16/32 "
               "is in the asymptotic regime")
    run.assume("Tdown4 supplied as (G + Lambda g)/kappa from the reference "
               "(every smooth metric is then an exact solution)")
    return run.finish({
        'evaluations': run.counters.get('comparisons', 0),
        'distinct_nontrivial': len(
            [1 for d in run.distinct]) if False else run.counters.get(
                'nontrivial_comparisons', 0),
        'rule': "one evaluation = one (spacetime cell, fd_order, T/vacuum "
                "mode, key) compared at two resolutions; non-trivial = the "
                "reference tensor is not identically zero (|ref| > 1e-6)",
        'cases': len(tasks),
        'worst_rel_error_N32_order8': worst,
        'exhaustive': True,
    })


def replay(rec):
    c = rec['case']
    t = c['task']
    task = (tuple(t[0]), t[1], t[2], t[3], tuple(t[4]), rec.get('seed', 0))
    r = case(task)
    for k, e in r['err'].items():
        print(k, e)
    print(r['raised'])
    return 0
