"""C11 - Einstein Toolkit output is read back exactly for any file and process
layout.  E2: exhaustive product of generated directories (R3) x layouts x
decompositions x ghost widths x numberings x file orders x restarts x levels
x requests, against the generator's ground truth (exact equality).
"""
import contextlib
import io
import itertools
import os
import shutil
import subprocess
import sys

import numpy as np

from mc import runner, seams
from refs import etgen

PID = "C11"
VARS10 = ['alp', 'betax', 'betay', 'betaz', 'gxx', 'gxy', 'gxz', 'gyy',
          'gyz', 'gzz']
LAYOUTS = [(False, False), (False, True), (True, False), (True, True)]
                                            # (grouped, proc)


def quiet():
    return contextlib.redirect_stdout(io.StringIO())


def expand_request(vars_aurel):
    """aurel names requested -> list of (returned key, ET var)."""
    table = {'alpha': ['alp'], 'betaup3': ['betax', 'betay', 'betaz'],
             'gammadown3': ['gxx', 'gxy', 'gxz', 'gyy', 'gyz', 'gzz'],
             'rho0': ['rho'], 'Ktrace': ['trK'],
             'velup3': ['vel[0]', 'vel[1]', 'vel[2]'], 'velx': ['vel[0]'],
             'vely': ['vel[1]'], 'velz': ['vel[2]']}
    out = []
    for v in vars_aurel:
        for e in table.get(v, [v]):
            out.append((etgen.aurel_name(e), e))
    return out


def latest_restart_with(spec, it, rl):
    best = None
    for r, rs in enumerate(spec['restarts']):
        its = rs['its'].get(rl, [])
        if it in its:
            best = rs.get('number', r)
    return best


def compare(data, spec, req_vars, req_its, rl, restart, ckpt=False):
    """Returned dict vs ground truth.  -> list of problem strings."""
    probs = []
    avail = []
    for it in sorted(set(req_its)):
        if ckpt:
            cands = [r for r, rs in enumerate(spec['restarts'])
                     if it in rs.get('checkpoints', [])
                     and (restart == -1 or restart == r)]
            r = cands[-1] if cands else None
            if r is not None:
                avail.append((it, r))
            continue
        r = latest_restart_with(spec, it, rl) if restart == -1 else (
            restart if it in spec['restarts'][restart]['its'].get(rl, [])
            else None)
        if r is not None:
            avail.append((it, r))
    got_it = [int(i) for i in data.get('it', [])]
    if got_it != [a[0] for a in avail]:
        probs.append(('it-column', got_it, [a[0] for a in avail]))
        return probs
    tcol = data.get('t', [])
    if len(tcol) != len(avail) or any(
            tc is None or abs(tc - etgen.time_of(it)) > 0
            for tc, (it, _) in zip(tcol, avail)):
        probs.append(('t-column', [None if x is None else float(x)
                                   for x in tcol]))
    for key, ev in expand_request(req_vars):
        if key not in data:
            probs.append(('missing-variable', key))
            continue
        col = data[key]
        if len(col) != len(avail):
            probs.append(('column-length', key, len(col)))
            continue
        for arr, (it, r) in zip(col, avail):
            ref = etgen.truth(ev, it, rl, r, spec['shapes'][rl],
                              spec['ghost'])
            if arr is None or np.shape(arr) != ref.shape:
                probs.append(('shape', key, it,
                              None if arr is None else list(np.shape(arr)),
                              list(ref.shape)))
            elif not np.array_equal(arr, ref):
                bad = np.argwhere(arr != ref)[0]
                probs.append(('values', key, it, [int(b) for b in bad],
                              float(arr[tuple(bad)]),
                              float(ref[tuple(bad)])))
    return probs


def dir_case(task):
    """Generate one directory, read it, compare."""
    from aurel import reading
    spec, reqs, fileorder, exact_or_raise, tag = task
    root = runner.scratch_root()
    out = {'tag': tag, 'bad': [], 'reads': 0, 'raised': 0}
    try:
        param = etgen.write_sim(root, spec)
        if spec.get('drop_chunk') is not None:
            # one per-process file got lost: a hole in the decomposition
            import glob as _g
            for fn in _g.glob(os.path.join(
                    root, spec['simname'], 'output-*', spec['simname'],
                    f"*.file_{spec['drop_chunk']}.h5")):
                os.remove(fn)
        for (rv, ri, rl, restart, extra) in reqs:
            # the printing options alternate from read to read (output is
            # captured): they must not change what is returned
            kw = dict(it=list(ri), vars=list(rv), rl=rl, restart=restart,
                      split_per_it=False, skip_last=False,
                      verbose=out['reads'] % 2 == 1,
                      veryverbose=out['reads'] % 4 == 3)
            kw.update(extra)
            rv0, ri0, p0 = list(rv), list(ri), dict(param)
            out['reads'] += 1
            if kw.get('split_per_it'):
                # cold cache for every read (cache histories are C12's)
                import glob as _g
                for d in _g.glob(os.path.join(root, spec['simname'],
                                              'output-*', spec['simname'],
                                              'all_iterations')):
                    shutil.rmtree(d, ignore_errors=True)
            try:
                with quiet(), seams.file_order(fileorder):
                    data = reading.read_data(param, **kw)
            except Exception as ex:     # noqa: BLE001
                out['raised'] += 1
                if kw.get('usecheckpoints'):
                    nothing = not any(
                        i in rs.get('checkpoints', [])
                        for i in ri for r_, rs in enumerate(spec['restarts'])
                        if restart in (-1, r_))
                else:
                    nothing = not any(
                        (latest_restart_with(spec, i, rl) is not None)
                        if restart == -1 else
                        (i in spec['restarts'][restart]['its'].get(rl, []))
                        for i in ri)
                if not exact_or_raise and not nothing:
                    out['bad'].append(('raised', type(ex).__name__,
                                       str(ex)[:160], [rv, ri, rl, restart]))
                continue
            for pb in compare(data, spec, rv, ri, rl, restart,
                              ckpt=bool(kw.get('usecheckpoints'))):
                out['bad'].append(pb + ([rv, ri, rl, restart],))
            if kw['it'] != ri0 or kw['vars'] != rv0 or param != p0:
                out['bad'].append(('argument-modified',
                                   [rv, ri, rl, restart]))
    finally:
        shutil.rmtree(root, ignore_errors=True)
    return out


def join_case(task):
    """join_chunks driven directly with every insertion order."""
    from aurel import reading
    shape, cuts, uneven = task
    boxes = etgen.tensor_boxes(shape, cuts, uneven)
    G = etgen.truth('gxy', 3, 0, 1, shape, 0)
    bad = []
    n = 0
    k = len(boxes)
    if k <= 4:
        perms = list(itertools.permutations(range(k)))
    else:       # all rotations and their reversals (not all k! orders)
        rots = [tuple(range(s, k)) + tuple(range(s)) for s in range(k)]
        perms = rots + [r[::-1] for r in rots]
    for perm in perms:
        chunks = {}
        for i in perm:
            (x0, x1), (y0, y1), (z0, z1) = boxes[i]
            chunks[(x0, y0, z0)] = np.ascontiguousarray(
                G[x0:x1, y0:y1, z0:z1].transpose(2, 1, 0))
        n += 1
        try:
            with quiet():
                res = reading.fixij(reading.join_chunks(chunks))
        except Exception as ex:      # noqa: BLE001
            bad.append(('raised', type(ex).__name__, list(perm)))
            break
        if np.shape(res) != G.shape or not np.array_equal(res, G):
            bad.append(('wrong', list(np.shape(res)), list(perm)))
            break
    return {'task': [list(shape), list(cuts), uneven], 'bad': bad, 'n': n}


def base_spec(name, grouped, proc, ghost, shapes, restarts, variables=None,
              **extra):
    s = {'simname': name, 'grouped': grouped, 'proc': proc, 'ghost': ghost,
         'variables': variables or VARS10, 'shapes': shapes,
         'restarts': restarts}
    s.update(extra)
    return s


def build_tasks(tier):
    tasks = []
    shapes_q = [(6, 6, 6)] if tier == 'quick' else [(6, 6, 6), (5, 7, 9),
                                                    (12, 4, 6)]
    ghosts = (0, 1, 3, (1, 0, 2)) if tier == 'quick' else (
        0, 1, 2, 3, (1, 0, 2), (2, 3, 1))
    req = [(['alpha', 'betaup3', 'gxx'], [2, 0], 0, -1, {}),
           (['gammadown3'], [2], 0, 0, {})]
    # F1: layout x cuts x uneven x ghost x shape
    for (grouped, proc), cuts, uneven, ghost, shape in itertools.product(
            LAYOUTS, itertools.product((1, 2, 3), repeat=3), (False, True),
            ghosts, shapes_q):
        if uneven and max(cuts) == 1:
            continue
        boxes = etgen.tensor_boxes(shape, cuts, uneven)
        spec = base_spec('sim', grouped, proc, ghost, {0: shape},
                         [{'its': {0: [0, 2]}, 'boxes': {0: boxes}}])
        tag = (f"F1:cuts={cuts}:uneven={int(uneven)}")
        tasks.append((spec, req, 'sorted', False,
                      (tag, f"layout={int(grouped)}{int(proc)} ghost={ghost}"
                       f" shape={shape}")))
    # F2: numbering x file order
    for (grouped, proc), cuts, numbering, forder in itertools.product(
            LAYOUTS, [(2, 1, 1), (1, 2, 1), (1, 1, 2), (3, 1, 1), (1, 3, 1),
                      (1, 1, 3), (2, 2, 1), (2, 2, 2), (3, 2, 1), (2, 3, 2)],
            ('zfast', 'reversed', 'rotated'),
            ('sorted', 'reversed', 'rotated')):
        shape = (6, 5, 7)
        boxes = etgen.renumber(etgen.tensor_boxes(shape, cuts), numbering)
        spec = base_spec('sim', grouped, proc, 2, {0: shape},
                         [{'its': {0: [0, 2]}, 'boxes': {0: boxes}}],
                         variables=['alp', 'betax', 'betay', 'betaz'])
        tag = f"F2:cuts={cuts}:numbering={numbering}"
        tasks.append((spec, [(['alpha', 'betaup3'], [0, 2], 0, -1, {})],
                      forder, False,
                      (tag, f"layout={int(grouped)}{int(proc)} "
                            f"fileorder={forder}")))
    # F3: beyond 27 chunks / many chunks per axis, and recursive layouts
    for (grouped, proc), cuts in itertools.product(
            LAYOUTS, [(4, 1, 1), (1, 1, 5), (2, 2, 7), (1, 12, 1)]):
        shape = (8, 12, 14)
        boxes = etgen.tensor_boxes(shape, cuts)
        spec = base_spec('sim', grouped, proc, 2, {0: shape},
                         [{'its': {0: [0]}, 'boxes': {0: boxes}}],
                         variables=['alp', 'gxx', 'gxy', 'gxz', 'gyy', 'gyz',
                                    'gzz'])
        tasks.append((spec, [(['alpha', 'gxy'], [0], 0, -1, {})], 'sorted',
                      False, (f"F3:cuts={cuts}",
                              f"layout={int(grouped)}{int(proc)}")))
    for (grouped, proc), nproc in itertools.product(LAYOUTS, range(2, 9)):
        shape = (6, 7, 8)
        boxes = etgen.recursive_boxes(shape, nproc)
        tp = etgen.is_tensor_product(boxes)
        spec = base_spec('sim', grouped, proc, 3, {0: shape},
                         [{'its': {0: [0]}, 'boxes': {0: boxes}}],
                         variables=['alp', 'betax', 'betay', 'betaz'])
        tasks.append((spec, [(['alpha', 'betaup3'], [0], 0, -1, {})],
                      'sorted', not tp,
                      (f"F3:recursive:nproc={nproc}",
                       f"layout={int(grouped)}{int(proc)} tensor={tp}")))
    # F4: restarts x levels x requests
    shapes = {0: (6, 5, 4), 1: (4, 6, 5)}
    bx = {0: etgen.tensor_boxes(shapes[0], (2, 2, 1)),
          1: etgen.tensor_boxes(shapes[1], (1, 2, 2))}
    S = 128      # Carpet-like iteration numbers (set order != sorted order)
    r0 = lambda *v: [S * i for i in v]      # noqa: E731
    rsets = {
        1: [{'its': {0: r0(0, 2, 4), 1: r0(0, 1, 2, 3, 4)}, 'boxes': bx}],
        2: [{'its': {0: r0(0, 2, 4), 1: r0(0, 1, 2, 3, 4)}, 'boxes': bx},
            {'its': {0: r0(4, 6, 8), 1: r0(4, 5, 6, 7, 8)}, 'boxes': bx}],
        3: [{'its': {0: r0(0, 2, 4), 1: r0(0, 1, 2, 3, 4)}, 'boxes': bx},
            {'its': {0: r0(2, 4, 6), 1: r0(2, 3, 4, 5, 6)}, 'boxes': bx},
            {'its': {0: r0(6, 8), 1: r0(6, 7, 8)}, 'boxes': {
                0: etgen.tensor_boxes(shapes[0], (1, 1, 1)),
                1: etgen.tensor_boxes(shapes[1], (1, 1, 1))}}],
        # non-monotone: a short re-run from an earlier checkpoint ends
        # before the older restart does
        4: [{'its': {0: r0(0, 2, 4, 6, 8), 1: r0(0, 1, 2, 3, 4, 5, 6, 7, 8)},
             'boxes': bx},
            {'its': {0: r0(2, 4), 1: r0(2, 3, 4)}, 'boxes': bx}],
        # the finer level is written more often and beyond the last
        # base-level output of each restart
        5: [{'its': {0: r0(0, 2, 4), 1: r0(0, 1, 2, 3, 4, 5)}, 'boxes': bx},
            {'its': {0: r0(4, 6, 8), 1: r0(4, 5, 6, 7, 8, 9)}, 'boxes': bx}],
    }
    var_reqs = [['alpha'], ['betaup3'], ['betax', 'gxy'], ['gammadown3'],
                ['gxx', 'alpha', 'rho0'], ['Ktrace', 'velup3']]
    it_reqs0 = [r0(0), r0(4), r0(4, 2), r0(8, 0, 4, 4), r0(6, 2) + [9999],
                r0(2, 6, 4), r0(4, 0, 2)]
    it_reqs1 = [r0(1), r0(4, 3), r0(5, 4, 4, 0), r0(2, 0, 1, 4, 3)]
    for (grouped, proc), nres, split in itertools.product(
            LAYOUTS, (1, 2, 3, 4, 5), (False, True)):
        restarts = rsets[nres]
        spec = base_spec('sim', grouped, proc, 2, shapes, restarts,
                         variables=etgen.ALLVARS)
        reqs = []
        ex = {'split_per_it': split}
        for rv in var_reqs:
            for ri in it_reqs0:
                reqs.append((rv, ri, 0, -1, ex))
            for ri in it_reqs1 + ([r0(5), r0(9, 4, 5), r0(8, 9)]
                                  if nres == 5 else []):
                reqs.append((rv, ri, 1, -1, ex))
            if nres == 5:
                reqs.append((rv, r0(5, 4), 1, 0, ex))
                reqs.append((rv, r0(9, 5), 1, 1, ex))
            for r in range(len(restarts)):
                reqs.append((rv, r0(4, 2), 0, r, ex))
        tasks.append((spec, reqs, 'sorted', False,
                      (f"F4:restarts={nres}:split={int(split)}",
                       f"layout={int(grouped)}{int(proc)}")))
    # F6: naming variants (' m=0' in dataset keys, '.xyz' in file names,
    #     'c=0' on a single chunk, '.file_0' suffix on a single process)
    for (grouped, proc), variant in itertools.product(
            LAYOUTS, [dict(with_m=True), dict(xyz='pre'), dict(xyz='post'),
                      dict(timelevels=3),
                      dict(always_c=True), dict(with_m=True, xyz='post',
                                                always_c=True)]):
        for cuts in ((1, 1, 1), (2, 1, 2)):
            shape = (5, 6, 4)
            spec = base_spec('sim', grouped, proc, 2, {0: shape},
                             [{'its': {0: r0(0, 1, 2)},
                               'boxes': {0: etgen.tensor_boxes(shape, cuts)}}],
                             variables=['alp', 'betax', 'betay', 'betaz',
                                        'rho', 'vel[0]', 'vel[1]', 'vel[2]'],
                             **variant)
            tasks.append((spec, [(['alpha', 'betaup3', 'rho0', 'velup3'],
                                  r0(2, 0), 0, -1, {}),
                                 (['velx', 'betaz'], r0(1), 0, 0,
                                  {'split_per_it': True})], 'sorted',
                          # 'c=0' on a single chunk is not a layout Carpet
                          # writes: exact or exception
                          bool(variant.get('always_c')) and cuts == (1, 1, 1),
                          (f"F6:{sorted(variant)}:cuts={cuts}",
                           f"layout={int(grouped)}{int(proc)}")))
    # F7: a hole in the decomposition (a lost per-process file): raise,
    #     never an array with the pieces closed up
    for grouped, (cuts, drop) in itertools.product(
            (False, True), [((1, 1, 4), 2), ((1, 1, 4), 1), ((2, 2, 1), 1),
                            ((1, 3, 1), 1)]):
        shape = (6, 6, 8)
        spec = base_spec('sim', grouped, True, 1, {0: shape},
                         [{'its': {0: r0(0, 1)},
                           'boxes': {0: etgen.tensor_boxes(shape, cuts)}}],
                         variables=['alp', 'betax', 'betay', 'betaz'])
        spec['drop_chunk'] = drop
        tasks.append((spec, [(['alpha'], r0(0), 0, -1, {}),
                             (['betaup3'], r0(1, 0), 0, 0, {})], 'sorted',
                      True, (f"F7:hole:cuts={cuts}:drop={drop}",
                             f"grouped={int(grouped)}")))
    # F5: reading from checkpoints (every variable, time levels 0 and 1)
    shapes5 = {0: (6, 5, 4), 1: (4, 6, 5)}
    for (grouped, proc), cuts in itertools.product(
            LAYOUTS, [(1, 1, 1), (2, 1, 2), (2, 2, 2)]):
        bx5 = {0: etgen.tensor_boxes(shapes5[0], cuts),
               1: etgen.tensor_boxes(shapes5[1], cuts)}
        restarts = [
            {'its': {0: r0(0, 2, 4), 1: r0(0, 1, 2, 3, 4)}, 'boxes': bx5,
             'checkpoints': r0(0, 3, 4)},
            {'its': {0: r0(4, 6, 8), 1: r0(4, 5, 6, 7, 8)}, 'boxes': bx5,
             'checkpoints': r0(7, 8)}]
        spec = base_spec('sim', grouped, proc, 2, shapes5, restarts,
                         variables=VARS10, checkpoint_data=True)
        ck = {'usecheckpoints': True}
        reqs = []
        for rv in (['alpha'], ['betaup3', 'gxy'], ['gammadown3']):
            for ri in (r0(3), r0(4, 0), r0(8, 3, 7), r0(0, 3, 4, 7, 8)):
                reqs.append((rv, ri, 0, -1, ck))
            reqs.append((rv, r0(3, 0), 1, 0, ck))
        tasks.append((spec, reqs, 'sorted', False,
                      (f"F5:checkpoints:cuts={cuts}",
                       f"layout={int(grouped)}{int(proc)}")))
    return tasks


def var_mapping_problems():
    """aurel <-> ET name maps are mutually consistent."""
    from aurel import reading
    probs = []
    a2e, e2a = reading.aurel_to_ET_varnames, reading.ET_to_aurel_varnames
    t2s = reading.aurel_tensor_to_scalar
    for a, es in a2e.items():
        if a in t2s:
            comps = t2s[a]
            back = [reading.transform_vars_ET_to_aurel(e) for e in es]
            if back != comps:
                probs.append(('tensor', a, back, comps))
        elif len(es) == 1:
            if reading.transform_vars_ET_to_aurel(es[0]) != a:
                probs.append(('scalar', a, es))
    for e, a in e2a.items():
        if a2e.get(a) != [e]:
            probs.append(('inverse', e, a, a2e.get(a)))
    for a in a2e:
        if reading.transform_vars_aurel_to_ET([a]) != a2e[a]:
            probs.append(('transform', a))
    for grp, vs in reading.known_groups.items():
        if not isinstance(vs, list) or not vs:
            probs.append(('group', grp))
    return probs


def run_family(tier, run):
    tasks = build_tasks(tier)
    res = runner.pmap(dir_case, tasks)
    reads = 0
    for t, r in zip(tasks, res):
        reads += r['reads']
        run.seen(t[4], r['raised'])
        run.count('reads', r['reads'])
        run.count('reads_raised', r['raised'])
        for bad in r['bad']:
            sig = f"C11:{t[4][0]}:{bad[0]}"
            run.violation(sig, f"{t[4][1]}: {bad}"[:400],
                          {'tag': list(t[4]), 'request': bad[-1],
                           'fileorder': t[2]})
    jt = []
    for cuts in itertools.product((1, 2, 3), repeat=3):
        for uneven in (False, True):
            if uneven and max(cuts) == 1:
                continue
            jt.append(((6, 5, 7), cuts, uneven))
    jres = runner.pmap(join_case, jt)
    jn = 0
    for t, r in zip(jt, jres):
        jn += r['n']
        for bad in r['bad']:
            run.violation(f"C11:join_chunks:cuts={t[1]}:{bad[0]}",
                          f"join_chunks shape={t[0]} cuts={t[1]} "
                          f"uneven={t[2]}: {bad}", {'join': r['task']})
    return len(tasks), reads, jn, len(jt)


def main(tier):
    run = runner.Run(PID, tier, "exploration")
    runner.in_child(etgen.selftest)
    for pb in runner.guard(run, 'C11:var-mapping:raised',
                           var_mapping_problems, default=[]):
        run.violation(f"C11:var-mapping:{pb[0]}:{pb[1]}", str(pb), {})
    ndirs, reads, jn, jt = run_family(tier, run)
    hs = []
    if tier == 'thorough' and os.environ.get('C11_CHILD') != '1':
        # string-hash seed is an environment answer: repeat in child
        # processes under other seeds and collect their verdicts
        for seedv in ('1', '7'):
            env = dict(os.environ, PYTHONHASHSEED=seedv, C11_CHILD='1',
                       VERIF_TIER='quick')
            p = subprocess.run([sys.executable, os.path.join(
                runner.VERIF, 'check'), PID, '--tier', 'quick'],
                env=env, capture_output=True, text=True)
            hs.append((seedv, p.returncode))
            for line in p.stdout.splitlines():
                if 'violation C11' in line:
                    sig = line.split('violation ')[1].split(': ')[0]
                    run.violation(sig + f":hashseed", line[:300], {})
    run.sample({'directory': 'layout=(grouped,proc)=(True,True) cuts=(2,3,1)'
                             ' uneven ghost=3 shape=(6,6,6) its=[0,2]',
                'request': "vars=['alpha','betaup3','gxx'] it=[2,0]",
                'oracle': 'np.array_equal with generator ground truth'})
    run.assume("restarts use a uniform, aligned iteration stride "
               "(non-uniform strides are outside the statement)")
    run.assume("'order of the requested iterations' is read as: returned "
               "'it' column = sorted unique requested available iterations "
               "and every column aligned with it")
    run.assume("recursive (non tensor-product) layouts: exact or exception")
    if os.environ.get('C11_CHILD') == '1':
        # child of a thorough run: do not overwrite the parent's evidence
        for sig, (what, rp) in run.violations.items():
            print(f"[C11] violation {sig}: {what}")
        return 1 if run.violations else 0
    return run.finish({
        'evaluations': ndirs + jn,
        'distinct_nontrivial': len(run.distinct),
        'rule': "one case = one generated simulation directory (layout, "
                "decomposition, ghost width, numbering, file order, "
                "restarts, levels) with its list of read requests; distinct "
                "= distinct (family tag, configuration); every case is "
                "non-trivial (data values encode variable/iteration/level/"
                "restart/global index)",
        'directories': ndirs, 'read_calls': reads,
        'join_chunks_calls': jn, 'join_chunks_decompositions': jt,
        'hash_seed_children': hs,
        'exhaustive': True,
    })


def replay(rec):
    c = rec['case']
    tier = rec.get('tier', 'quick')
    if 'join' in c:
        t = c['join']
        r = join_case((tuple(t[0]), tuple(t[1]), t[2]))
        print(r)
        return 1 if r['bad'] else 0
    for t in build_tasks(tier):
        if list(t[4]) == c['tag']:
            r = dir_case(t)
            print(r)
            return 1 if r['bad'] else 0
    print("case not found", c)
    return 2
