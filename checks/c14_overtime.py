"""C14 - over_time equals independent per-step computation, correctly ordered.

E1: input tables (1-3 steps whose fields differ per step, all row orders,
4 temporal keys) x every ordered set partition of the request set into <= 3
successive over_time calls.  Oracles: per-step fresh recomputation,
estimator re-applied, ordering, inputs preserved, all splits give the same
table, caller's table untouched.
"""
import itertools

import numpy as np

from mc import runner
from refs import fields
from checks import grcommon as gc
from checks.c02_noalias import snapshot

PID = "C14"
N = 6
P_ORDER = 2
TIMES = (0.37, 0.61, 0.93)
ITS = (4, 12, 8)          # iteration labels: not monotonic in row order
TVALS = (0.5, 2.5, 1.5)
TMIX = (2, 3.75, 2.5)     # hand-written time list mixing int and float
VARS = ['gammadet', 'Ktrace', 'Hamiltonian', 'gdown4', '<custom>',
        '<custom2>']
# keys whose columns become *component inputs* of the per-step instance of a
# later call (Momentumup3 is then assembled from the three columns)
VARS_C = ['Momentumx', 'Momentumy', 'Momentumz', 'Momentumdown3']
VARS_N = ['DDalpha', 'gammadown3_bssnok', 'Ktrace']
ESTS = ['max', 'mean', 'median', 'minabs', 'x0y0z1', '<customest>',
        '<customest2>', '<customest3>']
KW = {'Lambda': 0.3, 'clear_cache_every_nbr_calc': 3}
_STEPS = {}


def custom_var(rel):
    # deep on purpose (about 25 calculations): with period 3 the cache is
    # cleaned many times while this runs
    return rel['Hamiltonian'] * rel['alpha'] + rel['gammadet'] + rel.Lambda


def custom_var2(rel):
    return rel['Ktrace'] - 2.0 * rel['gammadet']


# custom variables requested in the same call share ONE dictionary
def custom_var3(rel):
    # reads a table column that is not a built-in quantity
    return rel['phi_field'] ** 2 * np.sqrt(rel['gammadet'])


CUSTOM_VARS = {'<custom>': ('custom', custom_var),
               '<custom2>': ('custom2', custom_var2),
               '<custom3>': ('custom3', custom_var3)}
VARS_X = ['<custom3>', 'gammadet']


def custom_est(a):
    return a[1, 2, 3] - a[0, 0, 0]


def custom_est2(a):
    return float(np.sqrt(np.mean(a * a)))


def custom_est3(a):
    return a[2, 1, 0] + 2.0 * a[3, 3, 3]


# several custom estimators may arrive in ONE dictionary, others in their own
CUSTOM_ESTS = {'<customest>': ('customest', custom_est),
               '<customest2>': ('customest2', custom_est2),
               '<customest3>': ('customest3', custom_est3)}


def step_inputs(seed):
    if seed not in _STEPS:
        st = fields.lattice('L2', 'S3', 'G2', 'D1', Lambda=0.3, seed=seed)
        param = fields.grid(N)
        X, Y, Z = fields.mesh(param)
        steps = []
        for t in TIMES:
            inp = gc.ref_chunks(st, t, X, Y, Z, gc.inputs_fn(True))
            steps.append({k: inp[k] for k in
                          ('gammadown3', 'Kdown3', 'alpha', 'betaup3',
                           'Tdown4')})
            # a nearly homogeneous field (mean/spread ~ 1e8): estimators
            # must not lose it to cancellation
            steps[-1]['homog_field'] = 5.0 + 1e-8 * np.sin(X + Y) * np.cos(
                2 * Z) * (1 + t)
            # a simulation field aurel has no name for
            steps[-1]['phi_field'] = 0.3 * np.sin(X + 2 * Y) * np.cos(Z) \
                + 0.1 * t
        _STEPS[seed] = (steps, param)
    return _STEPS[seed]


def make_fd(param):
    from aurel.finitedifference import FiniteDifference
    with gc.quiet():
        return FiniteDifference(param, boundary='periodic',
                                fd_order=P_ORDER, verbose=False)


_FRESH = {}


def fresh(seed, s, var):
    key = (seed, s, var)
    if key not in _FRESH:
        from aurel.core import AurelCore
        steps, param = step_inputs(seed)
        with gc.quiet():
            rel = AurelCore(make_fd(param), verbose=False, **KW)
        for k, v in steps[s].items():
            rel.data[k] = v.copy()
        rel.freeze_data()
        with gc.quiet():
            _FRESH[key] = np.array(CUSTOM_VARS[var][1](rel)
                                   if var in CUSTOM_VARS
                                   else rel[var])
    return _FRESH[key]


def est_apply(name, a):
    ab = np.abs(a)
    table = {'max': a.max(), 'mean': a.mean(), 'min': a.min(),
             'sum': a.sum(), 'std': a.std(), 'var': a.var(),
             'quartile1': np.percentile(a, 25), 'median': np.median(a),
             'quartile3': np.percentile(a, 75),
             'maxabs': ab.max(), 'minabs': ab.min(), 'meanabs': ab.mean(),
             'sumabs': ab.sum(), 'stdabs': ab.std(), 'varabs': ab.var(),
             'quartile1abs': np.percentile(ab, 25),
             'medianabs': np.median(ab),
             'quartile3abs': np.percentile(ab, 75),
             '<customest>': custom_est(a), '<customest2>': custom_est2(a),
             '<customest3>': custom_est3(a)}
    for i, j, k in itertools.product((0, 1), repeat=3):
        table[f'x{i}y{j}z{k}'] = a[-i, -j, -k]
    return table[name]


ALL_BUILTIN = ['max', 'mean', 'quartile1', 'median', 'quartile3', 'min',
               'sum', 'std', 'var', 'maxabs', 'minabs', 'meanabs',
               'quartile1abs', 'medianabs', 'quartile3abs', 'sumabs',
               'stdabs', 'varabs'] + [f'x{i}y{j}z{k}' for i in (0, 1)
                                     for j in (0, 1) for k in (0, 1)]


def ordered_partitions(items, kmax):
    """All ordered set partitions into 1..kmax non-empty blocks."""
    out = []
    n = len(items)
    for k in range(1, kmax + 1):
        for labels in itertools.product(range(k), repeat=n):
            if len(set(labels)) == k:
                out.append(tuple(tuple(items[i] for i in range(n)
                                       if labels[i] == b)
                                 for b in range(k)))
    return out


def build_table(seed, nsteps, perm, tkey):
    steps, param = step_inputs(seed)
    order = list(perm)
    table = {}
    if tkey == 'it+t':
        table['it'] = [ITS[s] for s in order]
        table['t'] = [0.25 * ITS[s] for s in order]
    else:
        vals = ITS if tkey in ('it', 'iteration') else (
            TMIX if tkey == 't-mixed' else TVALS)
        table['t' if tkey == 't-mixed' else tkey] = [vals[s] for s in order]
    for k in steps[0]:
        table[k] = [steps[s][k].copy() for s in order]
    return table, param, order


def temporal_value(tkey, s, nsteps):
    if tkey == 'it+t':
        return 0.25 * ITS[s]
    return (ITS if tkey in ('it', 'iteration') else (
        TMIX if tkey == 't-mixed' else TVALS))[s]


def run_case(task):
    try:
        return _run_case(task)
    except Exception as ex:      # noqa: BLE001
        return {'bad': [('raised', repr(ex)[:200])], 'final': None}


def _run_case(task):
    from aurel import time as atime
    seed, nsteps, perm, tkey, partition, extra = task
    bad = []
    table, param, order = build_table(seed, nsteps, perm, tkey)
    fd = make_fd(param)
    before = snapshot(table)
    est_names = ALL_BUILTIN if extra == 'all-estimators' else ESTS
    # '<customest>' and '<customest2>' share one dictionary, '<customest3>'
    # has its own
    ests = [e for e in est_names if e not in CUSTOM_ESTS]
    shared = {CUSTOM_ESTS[e][0]: CUSTOM_ESTS[e][1]
              for e in est_names if e in ('<customest>', '<customest2>')}
    if shared:
        ests.append(shared)
    if '<customest3>' in est_names:
        ests.append({'customest3': custom_est3})
    data = table
    try:
        if extra == 'name-reuse':
            # an earlier, unrelated over_time call of the same process used
            # the same custom names for OTHER functions: nothing of it may
            # survive into this call
            t0, _, _ = build_table(seed, 1, (0,), tkey)
            with gc.quiet():
                atime.over_time(
                    t0, fd, vars=[{'custom': lambda rel: 5.0 * rel['alpha'],
                                   'custom2': lambda rel: rel['gammadet']
                                   + 1.0}],
                    estimates=[{'customest': lambda a: 7.0 + a[0, 0, 0],
                                'customest2': lambda a: -a[1, 1, 1]},
                               {'customest3': lambda a: 2.0 * a[2, 2, 2]}],
                    verbose=False, **KW)
        with gc.quiet():
            for block in partition:
                vars_ = [v for v in block if v not in CUSTOM_VARS]
                cust = {CUSTOM_VARS[v][0]: CUSTOM_VARS[v][1]
                        for v in block if v in CUSTOM_VARS}
                if cust:
                    vars_.insert(len(vars_) // 2, cust)
                data = atime.over_time(data, fd, vars=vars_, estimates=ests,
                                       verbose=False, **KW)
            if extra == 'estimates-only':
                data = atime.over_time(data, fd, vars=[], estimates=ests,
                                       verbose=False, **KW)
            elif extra == 'repeat':
                data = atime.over_time(
                    data, fd, vars=['gammadet', 'Ktrace'], estimates=ests,
                    verbose=False, **KW)
    except Exception as ex:     # noqa: BLE001
        return {'bad': [('raised', repr(ex)[:200])], 'final': None}
    if snapshot(table) != before:
        bad.append(('caller-table-modified', ''))
    # (iii) rows sorted by the temporal key
    sort_key = 't' if tkey in ('it+t', 't-mixed') else tkey
    tcol = [float(x) for x in data[sort_key]]
    want_rows = sorted(order, key=lambda s: temporal_value(tkey, s, nsteps))
    if tcol != [float(temporal_value(tkey, s, nsteps)) for s in want_rows]:
        bad.append(('not-sorted', str(tcol)))
        return {'bad': bad, 'final': None}
    steps, _ = step_inputs(seed)
    scalars = ['alpha']
    for row, s in enumerate(want_rows):
        # (iv) inputs preserved, row-consistent
        for k in steps[0]:
            if not np.array_equal(np.asarray(data[k][row]), steps[s][k]):
                bad.append(('input-column-changed', k))
        if tkey == 'it+t' and int(data['it'][row]) != ITS[s]:
            bad.append(('row-mixed', 'it'))
        # (i) per-step fresh values
        for v in dict.fromkeys(v for block in partition for v in block):
            name = CUSTOM_VARS[v][0] if v in CUSTOM_VARS else v
            if name not in data:
                bad.append(('missing-column', name))
                continue
            got = np.asarray(data[name][row])
            ref = fresh(seed, s, v)
            sc = max(float(np.abs(ref).max()), 1e-3)
            if got.shape != ref.shape or not np.all(np.isfinite(got)) or \
                    float(np.abs(got - ref).max()) > 1e-9 * sc:
                bad.append(('value-differs-from-fresh', name))
    scal_cols = [k for k in data if np.ndim(data[k][0]) == 3]
    for k in scal_cols:
        for e in est_names:
            en = CUSTOM_ESTS[e][0] if e in CUSTOM_ESTS else e
            col = f"{k}_{en}"
            if col not in data:
                bad.append(('missing-estimate', col))
                continue
            for row in range(nsteps):
                want = est_apply(e, np.asarray(data[k][row]))
                if not np.isclose(float(data[col][row]), float(want),
                                  rtol=1e-12, atol=0):
                    bad.append(('estimate-wrong', col))
    final = {k: runner.digest(np.round(np.asarray(data[k], dtype=float), 9))
             if np.asarray(data[k]).dtype != object else 'obj'
             for k in sorted(data)}
    return {'bad': bad, 'final': final, 'ncols': len(data)}


def main(tier):
    run = runner.Run(PID, tier, "model_checking")
    seed = run.seed
    step_inputs(seed)
    parts = ordered_partitions(VARS, 3)
    tasks = []
    groups = {}
    # all partitions on the 3-step table (one row order per temporal key)
    for tkey, perm in (('it', (2, 0, 1)), ('t', (1, 2, 0)),
                       ('iteration', (0, 1, 2)), ('time', (2, 1, 0)),
                       ('it+t', (1, 0, 2))):
        sub = parts if (tier == 'thorough' or tkey in ('it', 't')) \
            else parts[::7]
        for part in sub:
            tasks.append((seed, 3, perm, tkey, part, None))
    # all row orders x temporal keys x step counts on a few partitions
    few = [parts[0], parts[5], parts[40], parts[-1]]
    for nsteps in (1, 2, 3):
        for perm in itertools.permutations(range(nsteps)):
            for tkey in ('it', 'iteration', 't', 'time', 'it+t', 't-mixed'):
                for part in few:
                    for extra in (None, 'estimates-only', 'repeat'):
                        tasks.append((seed, nsteps, perm, tkey, part, extra))
    for nsteps in (1, 3):
        tasks.append((seed, nsteps, tuple(range(nsteps))[::-1], 'it',
                      parts[0], 'all-estimators'))
    for part in few:
        tasks.append((seed, 3, (0, 2, 1), 'it', part, 'name-reuse'))
    for part in ordered_partitions(VARS_C, 3):
        tasks.append((seed, 3, (2, 0, 1), 'it', part, 'components'))
    # a custom variable built from a column aurel has no name for
    for part in ordered_partitions(VARS_X, 2):
        tasks.append((seed, 3, (2, 1, 0), 'it', part, 'foreign-column'))
    # requested names that CONTAIN the name of an input column ('alpha' in
    # 'DDalpha', 'gammadown3' in 'gammadown3_bssnok', 'Kdown3'...)
    for part in ordered_partitions(VARS_N, 3):
        tasks.append((seed, 3, (1, 2, 0), 'it', part, 'name-collision'))
    # the 'name-reuse' histories each need a process in which over_time has
    # not run before (module-level state would otherwise already hold the
    # names): one fresh child per task; everything else in the pool
    results = [runner.in_child(run_case, t) if t[5] == 'name-reuse' else None
               for t in tasks]
    rest = [i for i, t in enumerate(tasks) if t[5] != 'name-reuse']
    for i, r in zip(rest, runner.pmap(run_case, [tasks[i] for i in rest],
                                      chunksize=4)):
        results[i] = r
    nviol = 0
    for t, r in zip(tasks, results):
        _, nsteps, perm, tkey, part, extra = t
        run.seen(nsteps, perm, tkey, part, extra)
        for b in r['bad']:
            run.violation(f"C14:{b[0]}:"
                          f"{b[1] if b[0] not in ('raised', 'not-sorted') else ''}",
                          f"steps={nsteps} rows={perm} key={tkey} "
                          f"calls={part} extra={extra}: {b}"[:400],
                          {'task': [nsteps, list(perm), tkey,
                                    [list(x) for x in part], extra]})
        if r['final'] is not None and extra != 'all-estimators':
            groups.setdefault((nsteps, tkey, extra if extra in (
                'components', 'name-collision', 'foreign-column')
                else None),
                              []).append((r['final'], t))
    # (v) every split (and every row order) gives the same final table
    for (nsteps, tkey, _), lst in groups.items():
        ref_final, ref_t = lst[0]
        for fin, t in lst[1:]:
            if fin != ref_final:
                diff = sorted(k for k in set(fin) | set(ref_final)
                              if fin.get(k) != ref_final.get(k))
                run.violation(
                    f"C14:split-dependent:{diff[0] if diff else ''}",
                    f"steps={nsteps} key={tkey}: calls={t[4]} rows={t[2]} "
                    f"extra={t[5]} and calls={ref_t[4]} rows={ref_t[2]} "
                    f"give different tables in columns {diff[:5]}",
                    {'task': [nsteps, list(t[2]), tkey,
                              [list(x) for x in t[4]], t[5]]})
    run.sample({'table': {'steps': 3, 'row order': [2, 0, 1],
                          'temporal key': 'it', 'it values': list(ITS)},
                'calls': [list(b) for b in parts[40]],
                'estimates': ESTS, 'kwargs': KW})
    run.assume("every call passes the same estimates list; the request set "
               "contains no pair separated by a differential branch guard "
               "(st_Riemann_down4 / st_Weyl_down4), which C01 judges")
    run.assume("tuple-valued dtconserved cannot be tabulated by over_time "
               "and is not requested")
    return run.finish({
        'states': len(groups) + len(set(
            tuple(sorted(r['final'].items())) for r in results
            if r['final'])),
        'transitions': sum(len(t[4]) + (1 if t[5] else 0) for t in tasks),
        'traces_validated_against_impl': len(tasks),
        'histories': len(tasks), 'ordered_partitions': len(parts),
        'rule': "state = returned table (column digests); transition = one "
                "real over_time call; history = ordered set partition of "
                "the request set into successive calls",
        'exhaustive': True,
    })


def replay(rec):
    t = rec['case']['task']
    r = run_case((rec.get('seed', 0), t[0], tuple(t[1]), t[2],
                  tuple(tuple(x) for x in t[3]), t[4]))
    print(r['bad'])
    return 1 if r['bad'] else 0
