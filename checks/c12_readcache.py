"""C12 - the per-iteration read cache never changes what read_data returns.

E1: every sequence (depth <= D) of read_data calls on one generated
simulation (R3), starting from an empty cache.  State = content of every
all_iterations/it_*.hdf5.  After every call: returned arrays == ground truth,
and EVERY dataset in EVERY cache file == ground truth of the (variable,
iteration, level, restart) it is filed under.
"""
import contextlib
import io
import os
import shutil

import h5py
import numpy as np

from mc import explorer, runner, seams
from refs import etgen
from checks.c11_etread import expand_request

PID = "C12"
SHAPES = {0: (4, 5, 3), 1: (3, 4, 5)}
GHOST = 2
VARS = ['alp', 'betax', 'betay', 'betaz', 'gxx', 'gxy', 'gxz', 'gyy', 'gyz',
        'gzz']
AUREL_TO_ET = {'alpha': 'alp'}
_PRISTINE = {}
_LAYOUT = (True, True)
# Carpet-like iteration numbers: multiples of 128.  list(set([0,128,256]))
# is [0, 256, 128] - orders that small consecutive integers never produce.
S = 128


def quiet():
    return contextlib.redirect_stdout(io.StringIO())


def make_spec(layout):
    grouped, proc = layout
    bx = {0: etgen.tensor_boxes(SHAPES[0], (2, 2, 1)),
          1: etgen.tensor_boxes(SHAPES[1], (1, 2, 2))}
    return {'simname': 'sim', 'grouped': grouped, 'proc': proc,
            'ghost': GHOST, 'variables': VARS, 'shapes': SHAPES,
            'restarts': [
                {'its': {0: [S * i for i in (0, 2, 4)],
                         1: [S * i for i in (0, 1, 2, 3, 4)]}, 'boxes': bx},
                # (the user added HydroBase::rho to the output at the restart)
                {'its': {0: [S * i for i in (4, 6, 8)],
                         1: [S * i for i in (4, 5, 6, 7, 8)]}, 'boxes': bx,
                 'variables': VARS + ['rho']}]}


def build_pristine(layout, root):
    spec = make_spec(layout)
    etgen.write_sim(root, spec)
    return root


def expected_restart(spec, it, rl, restart):
    if restart >= 0:
        return restart if it in spec['restarts'][restart]['its'][rl] \
            else None
    best = None
    for r, rs in enumerate(spec['restarts']):
        lo, hi = min(rs['its'][0]), max(rs['its'][0])
        if lo <= it <= hi and it in rs['its'][rl]:
            best = r
    return best


def et_name(aurel_scalar):
    for e, a in etgen.ET_TO_AUREL.items():
        if a == aurel_scalar:
            return e
    return aurel_scalar


class System:
    def __init__(self, layout):
        self.layout = layout
        self.spec = make_spec(layout)
        self.dir = runner.scratch_root()
        shutil.copytree(_PRISTINE[layout], self.dir, dirs_exist_ok=True)
        self.param = etgen.make_param(self.dir, 'sim')
        self.last = None

    def close(self):
        shutil.rmtree(self.dir, ignore_errors=True)

    def cache_content(self):
        out = {}
        for r in range(len(self.spec['restarts'])):
            d = os.path.join(self.dir, 'sim', f'output-{r:04d}', 'sim',
                             'all_iterations')
            if not os.path.isdir(d):
                continue
            for fn in sorted(os.listdir(d)):
                if fn.startswith('it_') and fn.endswith('.hdf5'):
                    with h5py.File(os.path.join(d, fn), 'r') as f:
                        for k in f.keys():
                            out[(r, int(fn[3:-5]), k)] = np.array(f[k])
        return out

    def canon(self):
        return tuple(sorted((k, runner.digest(v))
                            for k, v in self.cache_content().items()))

    def outcome(self):
        return self.last

    def apply(self, op, checked=True):
        from aurel import reading
        _, I, V, rl, split, restart = op
        kw = dict(it=list(I), vars=list(V), rl=rl, split_per_it=split,
                  restart=restart, skip_last=False, verbose=False)
        viol = []
        before = set(self.cache_content()) if checked else None
        try:
            with quiet(), seams.file_order('sorted'):
                data = reading.read_data(dict(self.param), **kw)
        except Exception as ex:      # noqa: BLE001
            avail = [i for i in set(I)
                     if expected_restart(self.spec, i, rl, restart)
                     is not None]
            self.last = 'raised'
            if avail:
                viol.append((f"C12:read-raised:{type(ex).__name__}",
                             f"{op}: {ex!r}"[:300]))
            return viol
        if not checked:
            return viol
        # (i) + (iii): returned values
        avail = [(i, expected_restart(self.spec, i, rl, restart))
                 for i in sorted(set(I))]
        avail = [a for a in avail if a[1] is not None]
        got_it = [int(i) for i in data.get('it', [])]
        if got_it != [a[0] for a in avail]:
            viol.append(("C12:returned:it-column",
                         f"{op}: it column {got_it}, expected "
                         f"{[a[0] for a in avail]}"))
        else:
            for key, ev in expand_request(
                    [v for v in V if v not in ('t', 'it')]):
                col = data.get(key)
                has = [ev in self.spec['restarts'][r].get('variables', VARS)
                       for _, r in avail]
                if not any(has):
                    # the restart(s) do not hold this variable: as for an
                    # uncached read, the column is absent or all None
                    if col is not None and any(x is not None for x in col):
                        viol.append(("C12:returned:unavailable-variable",
                                     f"{op}: column {key} holds data"))
                    continue
                if col is None or len(col) != len(avail):
                    viol.append(("C12:returned:column-length",
                                 f"{op}: column {key} "
                                 f"{None if col is None else len(col)} "
                                 f"entries for {len(avail)} iterations"))
                    continue
                for arr, (it, r) in zip(col, avail):
                    ref = etgen.truth(ev, it, rl, r, SHAPES[rl], GHOST)
                    if arr is None or np.shape(arr) != ref.shape or \
                            not np.array_equal(arr, ref):
                        viol.append((
                            "C12:returned:wrong-array",
                            f"{op}: {key} at it={it} is not the stored "
                            f"data (first value "
                            f"{None if arr is None else np.ravel(arr)[0]}"
                            f", expected {ref.ravel()[0]})"))
            tcol = data.get('t', [])
            if len(tcol) != len(avail) or any(
                    t is None or t != etgen.time_of(i)
                    for t, (i, _) in zip(tcol, avail)):
                viol.append(("C12:returned:t-column",
                             f"{op}: t column {list(tcol)}"))
        # (ii): every cached dataset
        content = self.cache_content()
        for (r, it, k), val in content.items():
            name, lev = k.rsplit(' rl=', 1)
            lev = int(lev)
            if name == 'it':
                ok = int(val) == it
            elif name == 't':
                ok = float(val) == etgen.time_of(it)
            else:
                ref = etgen.truth(et_name(name), it, lev, r, SHAPES[lev],
                                  GHOST)
                ok = val.shape == ref.shape and np.array_equal(val, ref)
            if not ok:
                viol.append((f"C12:cache-poisoned:{name if name in ('it', 't') else 'variable'}",
                             f"after {op}: output-{r:04d} it_{it}.hdf5 "
                             f"dataset '{k}' does not hold the data of that "
                             f"variable/iteration/level/restart (first value "
                             f"{np.ravel(val)[0]})"))
        new = set(content) - before
        self.last = ('split' if split else 'direct', len(new) > 0,
                     len(avail))
        if not split and new:
            viol.append(("C12:cache-written-without-split",
                         f"{op} wrote {sorted(new)[:3]}"))
        return viol[:8]


def factory():
    return System(_LAYOUT)


def ops_menu(kind):
    ops = []
    if kind == 'full':
        Is = [[2], [4], [2, 4], [0, 2, 4, 6], [6, 2], [4, 100]]
        Is = [[S * i for i in I] for I in Is]
        Vs = [['gxx'], ['gammadown3'], ['alpha'], ['gxx', 'alpha'],
              ['betaup3'], ['betax', 'gxy']]
        for I in Is:
            for V in Vs:
                for rl in (0, 1):
                    for split in (True, False):
                        for rs in (-1, 0):
                            ops.append(('read', tuple(I), tuple(V), rl,
                                        split, rs))
    elif kind == 'medium':
        Is = [[2], [2, 4], [4, 6, 0], [6, 2]]
        Is = [[S * i for i in I] for I in Is]
        Vs = [['gxx'], ['gammadown3'], ['gxx', 'alpha'], ['betaup3']]
        for I in Is:
            for V in Vs:
                ops.append(('read', tuple(I), tuple(V), 0, True, -1))
        for V in Vs:
            ops.append(('read', (4 * S, 3 * S), tuple(V), 1, True, -1))
        ops.append(('read', (2 * S, 4 * S), ('gammadown3',), 0, False, -1))
        ops.append(('read', (4 * S,), ('gxx',), 0, True, 0))
        # the LAST component of a tensor cached alone (the others are then
        # missing at iterations the last one is not)
        ops.append(('read', (2 * S,), ('gzz',), 0, True, -1))
        ops.append(('read', (0,), ('betaz',), 0, True, -1))
        ops.append(('read', (0, 2 * S), ('betaup3',), 0, True, -1))
        ops.append(('read', (4 * S, 2 * S, 0), ('gammadown3',), 0, True, 0))
        # the time column named explicitly, in both positions
        ops.append(('read', (0, 2 * S), ('t', 'gxx'), 0, True, -1))
        ops.append(('read', (2 * S, 4 * S), ('gxx', 't'), 0, True, -1))
        # a variable that only the second restart holds
        ops.append(('read', (0, 2 * S), ('gxx', 'rho0'), 0, True, -1))
        ops.append(('read', (6 * S, 8 * S), ('rho0',), 0, True, -1))
        # a component named twice (through its tensor and by itself)
        ops.append(('read', (2 * S, 4 * S), ('betaup3', 'betax'), 0, True,
                    -1))
        ops.append(('read', (0, 2 * S, 4 * S), ('alpha', 'alpha'), 0, True,
                    -1))
    else:   # small
        ops = [('read', (2,), ('gxx',), 0, True, -1),
               ('read', (2, 4), ('gammadown3',), 0, True, -1),
               ('read', (4,), ('gxy', 'alpha'), 0, True, -1),
               ('read', (0, 4, 2), ('gammadown3',), 0, True, -1),
               ('read', (6, 2), ('betaup3',), 0, True, -1),
               ('read', (4,), ('betax',), 0, True, 0),
               ('read', (3, 4), ('gxx',), 1, True, -1),
               ('read', (4, 0, 2, 1, 3), ('gammadown3',), 1, True, -1),
               ('read', (2, 4), ('gxx', 'alpha'), 0, False, -1),
               ('read', (2,), ('gzz',), 0, True, -1),
               ('read', (0,), ('betaz',), 0, True, -1),
               ('read', (2, 4), ('betaup3', 'betax'), 0, True, -1),
               ('read', (0, 2), ('t', 'gxx'), 0, True, -1),
               ('read', (0, 2), ('gxx', 'rho0'), 0, True, -1),
               ('read', (0, 2), ('gxx', 'rho0'), 0, False, -1)]
        ops = [(o[0], tuple(S * i for i in o[1])) + o[2:] for o in ops]
    return ops


def main(tier):
    global _LAYOUT
    run = runner.Run(PID, tier, "model_checking")
    runner.in_child(etgen.selftest)
    layouts = [(True, True), (False, False), (True, False), (False, True)]
    if tier == 'quick':
        plans = [(lay, 'medium', 2) for lay in layouts] + \
                [(lay, 'small', 3) for lay in layouts]
    else:
        plans = [(lay, 'full', 2) for lay in layouts[:1]] + \
                [(lay, 'medium', 2) for lay in layouts[1:]] + \
                [(lay, 'small', 3) for lay in layouts] + \
                [((True, True), 'medium', 3)]
    roots = []
    total = {'states': 0, 'transitions': 0, 'pruned': 0}
    per = {}
    try:
        for lay in layouts:
            root = runner.scratch_root()
            roots.append(root)
            runner.in_child(build_pristine, lay, root)
            _PRISTINE[lay] = root
        for lay, kind, depth in plans:
            _LAYOUT = lay
            ops = ops_menu(kind)
            label = (f"layout={int(lay[0])}{int(lay[1])}/{kind}"
                     f"/ops={len(ops)}/depth={depth}")
            st = explorer.bfs(factory, ops, depth, run, label=label,
                              budget_s=1200 if tier == 'quick' else 5400,
                              group=2)
            per[label] = st
            for k in total:
                total[k] += st[k]
            run.note(f"{label}: {st}")
    finally:
        for r in roots:
            shutil.rmtree(r, ignore_errors=True)
    run.sample({'history': [repr(ops_menu('small')[0]),
                            repr(ops_menu('small')[1])],
                'meaning': "one component cached at one iteration, then the "
                           "tensor requested at more iterations"})
    run.assume("restarts with uniform aligned strides; skip_last=False")
    run.assume("state abstraction = set of (restart, file, dataset, digest);"
               " iterations.txt/content.txt are functions of the directory")
    hs = runner.hashseed_children(PID, run) if tier == 'thorough' else []
    return run.finish({
        'hash_seed_children': hs,
        'states': total['states'], 'transitions': total['transitions'],
        'traces_validated_against_impl': total['transitions'],
        'histories_pruned': total['pruned'], 'per_plan': per,
        'rule': "state = content of every per-iteration cache file; "
                "transition = one real read_data call; oracle = generator "
                "ground truth for returned arrays and for every cached "
                "dataset",
        'exhaustive': True,
    })


def replay(rec):
    global _LAYOUT
    c = rec['case']
    lab = c['label']
    lay = (lab[7] == '1', lab[8] == '1')
    kind = lab.split('/')[1]
    root = runner.scratch_root()
    try:
        runner.in_child(build_pristine, lay, root)
        _PRISTINE[lay] = root
        _LAYOUT = lay

        def go():
            return explorer.replay_history(factory, ops_menu(kind),
                                           c['history_idx'])
        v = runner.in_child(go)
    finally:
        shutil.rmtree(root, ignore_errors=True)
    return 1 if v else 0
