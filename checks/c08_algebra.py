"""C08 - pointwise tensor algebra identities hold to round-off for every input.

E2: the whole alphabet is laid out as one grid.  (a) closed-form determinant /
inverse / formatting / populate_4Riemann on integer product grids {-1,0,2}^k
(float64 arithmetic is exact there), which by polynomial-identity lifting
decides them for all inputs; (b) AurelCore identities on the product of
lapse x shift x SPD-metric menu x K menu; (c) safe_division on the full
product of operand kinds x zero patterns.
"""
import contextlib
import io
import itertools
import warnings

import numpy as np

from mc import runner

PID = "C08"
VALS = (-1.0, 0.0, 2.0)


def quiet():
    return contextlib.redirect_stdout(io.StringIO())


def perm_sign(p):
    return round(np.linalg.det(np.eye(len(p))[list(p)]))


def det_ref(M):
    """Leibniz determinant, vectorised over trailing axes, exact on ints."""
    n = M.shape[0]
    out = 0
    for p in itertools.permutations(range(n)):
        term = perm_sign(p)
        for i in range(n):
            term = term * M[i, p[i]]
        out = out + term
    return out


def adj_ref(M):
    n = M.shape[0]
    A = np.zeros_like(M)
    for i in range(n):
        for j in range(n):
            rows = [r for r in range(n) if r != i]
            cols = [c for c in range(n) if c != j]
            minor = M[np.ix_(rows, cols)]
            A[j, i] = (-1) ** (i + j) * det_ref(minor)
    return A


def maths_product(run):
    from aurel import maths
    n_eval = 0
    for dim, ncomp, det, inv, fmt in (
            (3, 6, maths.determinant3, maths.inverse3, maths.format_rank2_3),
            (4, 10, maths.determinant4, maths.inverse4,
             maths.format_rank2_4)):
        grid = np.array(list(itertools.product(VALS, repeat=ncomp))).T
        comps = [grid[i].copy() for i in range(ncomp)]     # (ncomp, P)
        M = fmt(comps)
        n_eval += grid.shape[1]
        # format: symmetric, components in the documented order
        idx = [(i, j) for i in range(dim) for j in range(i, dim)]
        for c, (i, j) in enumerate(idx):
            if not (np.array_equal(M[i, j], comps[c])
                    and np.array_equal(M[j, i], comps[c])):
                run.violation(f"C08:format_rank2_{dim}",
                              f"component {c} not at [{i},{j}]/[{j},{i}]",
                              {'fn': 'format', 'dim': dim})
        Mi = M.astype(np.int64)
        d_ref = det_ref(Mi)
        for arg, name in ((M, 'array'), (comps, 'list')):
            d = det(arg)
            if not np.array_equal(d, d_ref.astype(float)):
                k = int(np.argmax(np.abs(d - d_ref)))
                run.violation(
                    f"C08:determinant{dim}:{name}",
                    f"matrix components {grid[:, k].tolist()}: got {d[k]} "
                    f"expected {d_ref[k]}",
                    {'fn': f'determinant{dim}', 'components':
                     grid[:, k].tolist()})
        with warnings.catch_warnings():
            warnings.simplefilter('error')
            try:
                Iv = inv(M)
            except Warning as w:
                run.violation(f"C08:inverse{dim}:warning", repr(w), {})
                with warnings.catch_warnings():
                    warnings.simplefilter('ignore')
                    Iv = inv(M)
        A = adj_ref(Mi).astype(float)
        nz = d_ref != 0
        if not np.all(np.isfinite(Iv)):
            run.violation(f"C08:inverse{dim}:non-finite",
                          "inf/NaN in inverse", {})
        if np.abs(Iv[..., ~nz]).max() != 0:
            run.violation(f"C08:inverse{dim}:singular-not-zero",
                          "x/0 != 0 for a singular matrix", {})
        e = np.abs(Iv[..., nz] * d_ref[nz] - A[..., nz]).max()
        if e > 1e-11 * max(1.0, np.abs(A).max()):
            run.violation(f"C08:inverse{dim}:adjugate",
                          f"inverse*det differs from the adjugate by {e}",
                          {'fn': f'inverse{dim}'})
        prod = np.einsum('ij...,jk...->ik...', Iv[..., nz], M[..., nz])
        eye = np.eye(dim)[:, :, None]
        if np.abs(prod - eye).max() > 1e-10:
            run.violation(f"C08:inverse{dim}:identity",
                          f"inverse.matrix - 1 = {np.abs(prod-eye).max()}",
                          {})
        run.seen('maths', dim)
        # whole-array shortcuts: every pattern of off-diagonal components
        # that vanish identically over the whole array (a guard such as
        # `not np.any(xy)` can only fire on such an input), both argument
        # styles; the result must be the restriction of the full result
        offd = [c for c, (i, j) in enumerate(idx) if i != j]
        for r in range(1, len(offd) + 1):
            for Z in itertools.combinations(offd, r):
                sel = np.all(grid[list(Z)] == 0, axis=0)
                sub = [comps[c][sel].copy() for c in range(ncomp)]
                Ms = fmt([x.copy() for x in sub])
                n_eval += int(sel.sum())
                for arg, name in ((Ms, 'array'), (sub, 'list')):
                    with warnings.catch_warnings():
                        warnings.simplefilter('ignore')
                        try:
                            Is = np.asarray(inv(arg))
                            ds = np.asarray(det(arg))
                        except Exception as ex:     # noqa: BLE001
                            run.violation(
                                f"C08:inverse{dim}:pattern-raised",
                                f"components {Z} identically zero, {name} "
                                f"argument: {ex!r}",
                                {'fn': f'inverse{dim}', 'zero': list(Z)})
                            continue
                    if not (Is.shape == Iv[..., sel].shape
                            and np.array_equal(Is, Iv[..., sel])
                            and np.array_equal(ds, d_ref[sel].astype(float))):
                        run.violation(
                            f"C08:inverse{dim}:zero-pattern",
                            f"array whose components {[idx[c] for c in Z]} "
                            f"vanish identically ({name} argument): inverse/"
                            "determinant differ from the same matrices "
                            "embedded in a general array",
                            {'fn': f'inverse{dim}', 'zero': list(Z),
                             'style': name})
                run.seen('maths-pattern', dim, Z)
    # symmetrise / antisymmetrise: all basis tensors of a (3,3) and (4,4)
    for dim in (3, 4):
        for i, j in itertools.product(range(dim), repeat=2):
            T = np.zeros((dim, dim, 2))
            T[i, j] = [1.0, -3.0]
            S, A = maths.symmetrise_tensor(T), maths.antisymmetrise_tensor(T)
            Tt = np.swapaxes(T, 0, 1)
            n_eval += 1
            if not (np.array_equal(S, (T + Tt) / 2)
                    and np.array_equal(A, (T - Tt) / 2)
                    and np.array_equal(S + A, T)):
                run.violation("C08:symmetrise", f"basis ({i},{j})", {})
    # populate_4Riemann: every basis input, documented placement
    S = (1, 1, 2)
    shapes = {'ssss': (3, 3, 3, 3), 'ssst': (3, 3, 3), 'stst': (3, 3)}
    for which, shp in shapes.items():
        for idx in itertools.product(*[range(s) for s in shp]):
            inp = {k: np.zeros(v + S) for k, v in shapes.items()}
            inp[which][idx] = [[[1.0, -2.0]]]
            R = maths.populate_4Riemann(inp['ssss'], inp['ssst'],
                                        inp['stst'])
            E = np.zeros((4, 4, 4, 4) + S)
            E[1:, 1:, 1:, 1:] = inp['ssss']
            for i, j, k in itertools.product(range(1, 4), repeat=3):
                s = inp['ssst'][i - 1, j - 1, k - 1]
                E[i, j, k, 0] = s
                E[i, j, 0, k] = -s
                E[k, 0, i, j] = s
                E[0, k, i, j] = -s
            for i, j in itertools.product(range(1, 4), repeat=2):
                t = inp['stst'][i - 1, j - 1]
                E[i, 0, j, 0] = t
                E[i, 0, 0, j] = -t
                E[0, i, 0, j] = t
                E[0, i, j, 0] = -t
            n_eval += 1
            if R.shape != E.shape or not np.array_equal(R, E):
                run.violation(f"C08:populate_4Riemann:{which}",
                              f"basis input {which}{idx} misplaced", {})
                break
    # Riemann symmetries of the output for symmetric-consistent inputs
    rng = np.random.RandomState(11)
    a = rng.randn(3, 3, 3, 3, 1, 1, 2)
    ssss = a - np.einsum('abcd...->bacd...', a)
    ssss = ssss - np.einsum('abcd...->abdc...', ssss)
    ssss = ssss + np.einsum('abcd...->cdab...', ssss)
    b = rng.randn(3, 3, 3, 1, 1, 2)
    ssst = b - np.einsum('abc...->bac...', b)
    c = rng.randn(3, 3, 1, 1, 2)
    stst = c + np.einsum('ab...->ba...', c)
    R = maths.populate_4Riemann(ssss, ssst, stst)
    for nm, T in (('ab', R + np.einsum('abcd...->bacd...', R)),
                  ('cd', R + np.einsum('abcd...->abdc...', R)),
                  ('pair', R - np.einsum('abcd...->cdab...', R))):
        if np.abs(T).max() > 1e-14:
            run.violation(f"C08:populate_4Riemann:symmetry:{nm}",
                          f"{np.abs(T).max()}", {})
    return n_eval


def spd_menu():
    """24 symmetric positive-definite 3x3 matrices: diagonal, strongly
    non-diagonal, badly scaled, near-degenerate."""
    out = []
    rng = np.random.RandomState(2)
    for d in ([1, 1, 1], [1, 2, 3], [1e-6, 1, 1e6], [1e3, 1e3, 1e-3],
              [0.5, 0.5, 4]):
        out.append(np.diag(np.array(d, float)))
    for k in range(13):
        Q, _ = np.linalg.qr(rng.randn(3, 3))
        ev = 10.0 ** rng.uniform(-3 if k % 2 else -1, 3 if k % 2 else 1, 3)
        out.append(Q @ np.diag(ev) @ Q.T)
    for eps in (1e-2, 1e-4, 1e-6):        # near-degenerate, non-diagonal
        v = np.array([1.0, 1.0, 1.0]) / np.sqrt(3)
        out.append(np.eye(3) - (1 - eps) * np.outer(v, v))
    out.append(np.array([[2, 1.9, 0], [1.9, 2, 0], [0, 0, 1]], float))
    out.append(np.array([[4, -1, 2], [-1, 3, 0.5], [2, 0.5, 5]], float))
    out.append(np.array([[1, 0.3, -0.2], [0.3, 1, 0.4], [-0.2, 0.4, 1]]))
    out = [(m + m.T) / 2 for m in out]
    assert len(out) == 24
    return out


def k_menu():
    return [np.zeros((3, 3)),
            np.array([[0.3, 0, 0], [0, 0.3, 0], [0, 0, 0.3]]),
            np.array([[0.5, 0.2, -0.1], [0.2, -0.4, 0.3], [-0.1, 0.3, 0.2]]),
            np.array([[-1.0, 2.0, 0.5], [2.0, 0.1, -3.0], [0.5, -3.0, 4.0]])]


def core_identities(task):
    """All identities on the product alphabet for one dtype/shape."""
    try:
        return _core_identities(task)
    except Exception:      # noqa: BLE001 - an exception inside aurel
        import traceback
        return {'task': [str(np.dtype(task[0])), task[1]],
                'bad': [('raised', traceback.format_exc()[-400:])],
                'checks': 1, 'points': 1}


def _core_identities(task):
    from aurel.core import AurelCore
    from aurel.finitedifference import FiniteDifference
    dtype, shape_kind = task
    alphas = (0.5, 1.0, 3.0)
    betas = list(itertools.product((-1.0, 0.0, 0.7), repeat=3))
    G, Ks = spd_menu(), k_menu()
    pts = list(itertools.product(range(3), range(27), range(24), range(4)))
    n = len(pts)
    shape = {'line': (n, 1, 1), 'box': (18, 18, 24)}[shape_kind]
    assert shape[0] * shape[1] * shape[2] == n
    a = np.array([alphas[p[0]] for p in pts]).reshape(shape)
    b = np.array([betas[p[1]] for p in pts]).T.reshape((3,) + shape)
    g = np.moveaxis(np.array([G[p[2]] for p in pts]), 0, -1).reshape(
        (3, 3) + shape)
    K = np.moveaxis(np.array([Ks[p[3]] for p in pts]), 0, -1).reshape(
        (3, 3) + shape)
    cond = np.array([np.linalg.cond(G[p[2]]) for p in pts]).reshape(shape)
    param = {'Nx': shape[0], 'Ny': shape[1], 'Nz': shape[2], 'xmin': 0.,
             'ymin': 0., 'zmin': 0., 'dx': 1., 'dy': 1., 'dz': 1.}
    with quiet():
        fd = FiniteDifference(param, boundary='periodic', fd_order=2,
                              verbose=False)
        rel = AurelCore(fd, verbose=False,
                        clear_cache_every_nbr_calc=10 ** 9)
    rel.data.update({'alpha': a.astype(dtype), 'betaup3': b.astype(dtype),
                     'gammadown3': g.astype(dtype),
                     'Kdown3': K.astype(dtype)})
    rel.freeze_data()
    eps = 1e-12 if dtype == np.float64 else 3e-4
    bad = []
    ncheck = [0]

    def chk(name, lhs, rhs, scale=1.0, use_cond=True):
        ncheck[0] += 1
        lhs, rhs = np.asarray(lhs, float), np.asarray(rhs, float)
        if lhs.shape != np.broadcast_shapes(lhs.shape, rhs.shape):
            bad.append((name, 'shape', list(lhs.shape)))
            return
        tol = eps * (cond if use_cond else 1.0) * scale
        d = np.abs(lhs - rhs)
        # float32 cannot resolve metrics with cond > 1e3: not judged there
        if d.ndim >= 3:
            judged = np.broadcast_to(cond <= (1e3 if dtype == np.float32
                                              else np.inf), d.shape)
            d = np.where(judged, d, 0.0)
            lhs = np.where(judged, lhs, 0.0)
        if not np.all(np.isfinite(lhs)) or np.any(d > tol * (
                1 + np.abs(rhs))):
            k = np.unravel_index(np.argmax(np.where(
                np.isfinite(d), d / (tol * (1 + np.abs(rhs))), np.inf)),
                d.shape)
            pt = pts[int(np.ravel_multi_index(k[-3:], shape))]
            bad.append((name, 'value', float(lhs[k]),
                        float(np.broadcast_to(rhs, lhs.shape)[k]),
                        {'alpha': alphas[pt[0]], 'beta': betas[pt[1]],
                         'gamma#': pt[2], 'K#': pt[3]}))
    with quiet():
        g_ = rel.data['gammadown3'].astype(float)
        gu = rel['gammaup3']
        d3 = np.eye(3).reshape((3, 3, 1, 1, 1))
        d4 = np.eye(4).reshape((4, 4, 1, 1, 1))
        chk('gammaup3.gammadown3=1', np.einsum('ij...,jk...->ik...', gu, g_),
            d3, scale=10)
        gi_ref = np.moveaxis(np.linalg.inv(np.moveaxis(np.moveaxis(
            g_, 0, -1), 0, -1)), (-2, -1), (0, 1))
        chk('gammaup3=linalg.inv', gu, gi_ref,
            scale=10 * np.abs(gi_ref).max(axis=(0, 1)))
        det_ref_ = np.linalg.det(np.moveaxis(np.moveaxis(g_, 0, -1), 0, -1))
        chk('gammadet=linalg.det', rel['gammadet'], det_ref_, scale=10)
        # gdet, branch without gdown4 in the cache, then with
        gdet1 = rel.gdet()
        g4 = rel['gdown4']
        gdet2 = rel.gdet()
        a_ = a
        chk('gdet=-alpha^2 gammadet (no gdown4)', gdet1,
            -a_ ** 2 * det_ref_, scale=10)
        chk('gdet=-alpha^2 gammadet (gdown4 cached)', gdet2,
            -a_ ** 2 * det_ref_, scale=1e3 * (1 + np.abs(b).max() ** 2))
        chk('gup4.gdown4=1', np.einsum('ij...,jk...->ik...', rel['gup4'],
                                       g4), d4, scale=1e3)
        bd = np.einsum('i...,ij...->j...', b, g_)
        chk('g_tt=-alpha^2+beta.beta', g4[0, 0],
            -a_ ** 2 + np.einsum('i...,i...->...', b, bd), use_cond=False,
            scale=10 * (1 + np.abs(g_).max(axis=(0, 1))))
        chk('g_ti=beta_i', g4[0, 1:], bd, use_cond=False,
            scale=10 * (1 + np.abs(g_).max(axis=(0, 1))))
        chk('g_ij=gamma_ij', g4[1:, 1:], g_, use_cond=False)
        chk('betadown3', rel['betadown3'], bd, use_cond=False,
            scale=10 * (1 + np.abs(g_).max(axis=(0, 1))))
        chk('gtt key', rel.gtt(), g4[0, 0], use_cond=False)
        nu, nd = rel['nup4'], rel['ndown4']
        sc_g = 10 * (1 + np.abs(g_).max(axis=(0, 1)))
        chk('n.n=-1', np.einsum('a...,b...,ab...->...', nu, nu, g4), -1.0,
            use_cond=False, scale=sc_g)
        chk('n_mu=g n^nu', np.einsum('ab...,b...->a...', g4, nu), nd,
            use_cond=False, scale=sc_g)
        gam4 = rel['gammadown4']
        chk('n^mu gamma_mu_nu=0', np.einsum('a...,ab...->b...', nu, gam4),
            0.0, use_cond=False, scale=sc_g)
        chk('gamma_mn=g_mn+n_m n_n', gam4,
            g4 + np.einsum('a...,b...->ab...', nd, nd), use_cond=False,
            scale=sc_g)
        chk('gammaup4 spatial block', rel['gammaup4'][1:, 1:], gu,
            use_cond=False)
        # raise / lower round trips
        Ku = rel['Kup3']
        K_ = rel.data['Kdown3'].astype(float)
        sK = 10 * (1 + np.abs(K_).max(axis=(0, 1)))
        chk('lower(Kup3)=Kdown3',
            np.einsum('ia...,jb...,ij...->ab...', g_, g_, Ku), K_,
            scale=sK * 10)
        Ad, Au = rel['Adown3'], rel['Aup3']
        chk('lower(Aup3)=Adown3',
            np.einsum('ia...,jb...,ij...->ab...', g_, g_, Au), Ad,
            scale=sK * 10)
        chk('trace(Adown3)=0', np.einsum('ij...,ij...->...', gu, Ad), 0.0,
            scale=sK * 10)
        chk('Ktrace', rel['Ktrace'], np.einsum('ij...,ij...->...', gi_ref,
                                               K_), scale=sK * 10)
        chk('tracefree3', rel.tracefree3(K_), Ad, use_cond=False)
        # the helpers take any rank-2 tensor, not only symmetric ones
        anti = np.array([[0.0, 0.4, -0.7], [-0.4, 0.0, 1.1],
                         [0.7, -1.1, 0.0]]).reshape((3, 3, 1, 1, 1))
        Fns = K_ + anti * (1.0 + np.abs(K_).max(axis=(0, 1)))
        trF = np.einsum('ij...,ij...->...', gi_ref, Fns)
        sF = 10 * (1 + np.abs(Fns).max(axis=(0, 1)))
        chk('trace3(non-symmetric)', rel.trace3(Fns), trF, scale=sF * 10)
        tfF = rel.tracefree3(Fns)
        chk('tracefree3(non-symmetric) trace-free',
            np.einsum('ij...,ij...->...', gi_ref, tfF), 0.0, scale=sF * 10)
        chk('tracefree3(non-symmetric)', tfF, Fns - g_ * trF / 3.0,
            scale=sF * 10)
        F4 = np.zeros((4, 4) + shape)
        F4[1:, 1:] = Fns
        F4[0, 1:] = np.array([0.3, -0.2, 0.5]).reshape(
            (3, 1, 1, 1)) * np.ones(shape)
        F4[1:, 0] = np.array([-0.1, 0.6, 0.2]).reshape(
            (3, 1, 1, 1)) * np.ones(shape)
        F4[0, 0] = 0.9
        chk('trace4(non-symmetric)', rel.trace4(F4),
            np.einsum('ab...,ab...->...', rel['gup4'], F4),
            scale=1e3 * (1 + np.abs(b).max() ** 2) * sF)
        chk('A2=1/2 A_ij A^ij', rel['A2'],
            0.5 * np.einsum('ij...,ij...->...', Ad, Au), scale=sK ** 2)
        # conformal quantities
        gt = rel['gammadown3_bssnok']
        dt = np.linalg.det(np.moveaxis(np.moveaxis(gt, 0, -1), 0, -1))
        chk('det(conformal metric)=1', dt, 1.0, use_cond=False, scale=100)
        psi = rel['psi_bssnok']
        chk('psi=gammadet^(1/12)', psi, det_ref_ ** (1 / 12),
            use_cond=False, scale=10)
        chk('phi=ln psi', rel['phi_bssnok'], np.log(det_ref_) / 12,
            use_cond=False, scale=100)
        chk('conformal metric weight', gt, psi ** -4 * g_, use_cond=False)
        chk('conformal inverse weight', rel['gammaup3_bssnok'], psi ** 4 * gu,
            use_cond=False)
        chk('gt^-1.gt=1', np.einsum('ij...,jk...->ik...',
                                    rel['gammaup3_bssnok'], gt), d3,
            scale=10)
        chk('Adown3_bssnok weight', rel['Adown3_bssnok'], psi ** -4 * Ad,
            use_cond=False)
        chk('Aup3_bssnok weight', rel['Aup3_bssnok'], psi ** 4 * Au,
            use_cond=False)
        # helpers
        V = b + 0.3
        chk('vector_inner_product3', rel.vector_inner_product3(V, b),
            np.einsum('a...,b...,ab...->...', V, b, g_), use_cond=False,
            scale=sc_g)
        chk('norm3', rel.norm3(V) ** 2,
            np.einsum('a...,b...,ab...->...', V, V, g_), use_cond=False,
            scale=sc_g)
        V4 = np.concatenate([a_[None], V], axis=0)
        chk('vector_inner_product4', rel.vector_inner_product4(V4, nu),
            np.einsum('a...,b...,ab...->...', V4, nu, g4), use_cond=False,
            scale=sc_g * 10)
        chk('norm4', rel.norm4(nu), 1.0, use_cond=False, scale=sc_g)
        chk('trace4(gdown4)=4', rel.trace4(g4), 4.0, scale=1e3)
        chk('trace3(gammadown3)=3', rel.trace3(g_), 3.0, scale=10)
        chk('magnitude3', rel.magnitude3(K_),
            0.5 * np.einsum('ab...,ab...->...', K_, Ku), scale=sK ** 2)
        K4 = rel.s_to_st(K_)
        chk('s_to_st spatial block', K4[1:, 1:], K_, use_cond=False)
        chk('s_to_st: K4.n=0', np.einsum('ab...,b...->a...', K4, nu), 0.0,
            use_cond=False, scale=sK * 10)
        chk('magnitude4(K4)=magnitude3(K)', rel.magnitude4(K4),
            rel.magnitude3(K_), scale=sK ** 2 * 1e3)
        # Levi-Civita
        e3 = rel.levicivita_down3()
        chk('eps_123=sqrt(gammadet)', e3[0, 1, 2], np.sqrt(det_ref_),
            scale=10)
        chk('eps3 antisym', e3 + np.einsum('ijk...->jik...', e3), 0.0,
            use_cond=False)
        chk('eps3 antisym2', e3 + np.einsum('ijk...->ikj...', e3), 0.0,
            use_cond=False)
        e3u = np.einsum('ia...,jb...,kc...,ijk...->abc...', gu, gu, gu, e3)
        chk('eps_ijk eps^ijk=6', np.einsum('ijk...,ijk...->...', e3, e3u),
            6.0, scale=100)
        e4 = rel.levicivita_down4()
        chk('eps_0123=sqrt(-g)', e4[0, 1, 2, 3], a_ * np.sqrt(det_ref_),
            scale=1e3 * (1 + np.abs(b).max() ** 2))
        chk('eps4 antisym', e4 + np.einsum('abcd...->bacd...', e4), 0.0,
            use_cond=False)
        chk('eps4 antisym2', e4 + np.einsum('abcd...->abdc...', e4), 0.0,
            use_cond=False)
        chk('eps4 antisym3', e4 + np.einsum('abcd...->acbd...', e4), 0.0,
            use_cond=False)
        k3 = rel.kronecker_delta3()
        chk('kronecker3', k3, d3 + 0 * a_, use_cond=False)
        chk('kronecker4', rel.kronecker_delta4(), d4 + 0 * a_,
            use_cond=False)
    # zero-shift branch of s_to_st: no shift among the inputs
    with quiet():
        rel0 = AurelCore(fd, verbose=False)
    rel0.data.update({'gammadown3': g, 'Kdown3': K})
    rel0.freeze_data()
    with quiet():
        K40 = rel0.s_to_st(K)
    chk('s_to_st (no shift): time components 0',
        np.abs(K40[0]).max() + np.abs(K40[:, 0]).max(), 0.0, use_cond=False)
    chk('s_to_st (no shift) spatial', K40[1:, 1:], K, use_cond=False)
    return {'task': [str(np.dtype(dtype)), shape_kind], 'bad': bad,
            'checks': ncheck[0], 'points': n}


def int_dtype_case(task):
    """'all ... dtypes': integer-valued inputs typed int64 give, for every
    description key, the values the same inputs typed float64 give (a result
    array allocated with the dtype of an input truncates silently)."""
    try:
        return _int_dtype_case(task)
    except Exception:      # noqa: BLE001
        import traceback
        return {'bad': [('raised', traceback.format_exc()[-400:])],
                'keys': 0, 'points': 0}


def _int_dtype_case(task):
    from aurel.core import AurelCore, descriptions
    from aurel.finitedifference import FiniteDifference
    alphas = (1, 2, 3)
    betas = list(itertools.product((-1, 0, 2), repeat=3))
    G = [np.diag([1, 2, 3]), np.array([[2, 1, 0], [1, 2, 0], [0, 0, 1]]),
         np.array([[4, -1, 2], [-1, 3, 0], [2, 0, 5]]), np.eye(3, dtype=int),
         np.array([[3, 0, 0], [0, 2, 1], [0, 1, 2]])]
    Ks = [np.zeros((3, 3), int), np.eye(3, dtype=int),
          np.array([[1, 2, -1], [2, -4, 3], [-1, 3, 2]])]
    pts = list(itertools.product(range(3), range(27), range(5), range(3)))
    n = len(pts)
    shape = (n // 9, 3, 3)
    a = np.array([alphas[p[0]] for p in pts]).reshape(shape)
    b = np.array([betas[p[1]] for p in pts]).T.reshape((3,) + shape)
    g = np.moveaxis(np.array([G[p[2]] for p in pts]), 0, -1).reshape(
        (3, 3) + shape)
    K = np.moveaxis(np.array([Ks[p[3]] for p in pts]), 0, -1).reshape(
        (3, 3) + shape)
    param = {'Nx': shape[0], 'Ny': 3, 'Nz': 3, 'xmin': 0., 'ymin': 0.,
             'zmin': 0., 'dx': 1., 'dy': 1., 'dz': 1.}

    def mk(dt):
        with quiet():
            fd = FiniteDifference(param, boundary='periodic', fd_order=2,
                                  verbose=False)
            rel = AurelCore(fd, verbose=False,
                            clear_cache_every_nbr_calc=10 ** 9)
        rel.data.update({'alpha': a.astype(dt), 'betaup3': b.astype(dt),
                         'gammadown3': g.astype(dt),
                         'Kdown3': K.astype(dt)})
        rel.freeze_data()
        return rel

    def flat(v):
        if isinstance(v, dict):
            return [x for k in sorted(v, key=str) for x in flat(v[k])]
        if isinstance(v, (list, tuple)):
            return [x for y in v for x in flat(y)]
        return [np.asarray(v)]
    ri, rf = mk(np.int64), mk(np.float64)
    bad = []
    nk = 0
    for k in descriptions:
        try:
            with quiet():
                vf = flat(rf[k])
        except Exception:      # noqa: BLE001 - judged by other checks
            continue
        try:
            with quiet():
                vi = flat(ri[k])
        except Exception as ex:      # noqa: BLE001
            bad.append(('int-typed-inputs:raised', k, repr(ex)[:120]))
            continue
        nk += 1
        for x, y in zip(vi, vf):
            if x.shape != y.shape or len(vi) != len(vf):
                bad.append(('int-typed-inputs', k, 'shape'))
                break
            if x.size == 0:
                continue
            fin = np.isfinite(y)
            d = np.abs(np.where(fin, x, 0).astype(complex)
                       - np.where(fin, y, 0).astype(complex))
            if not np.array_equal(np.isfinite(x), fin) or \
                    np.any(d > 1e-10 * (1 + np.abs(np.where(fin, y, 0)))):
                bad.append(('int-typed-inputs', k, float(d.max())))
                break
    return {'bad': bad, 'keys': nk, 'points': n}


PAIR_KEYS = ('gammaup3', 'gammadet', 'gdown4', 'gup4', 'betadown3', 'nup4',
             'ndown4', 'gammadown4', 'gammaup4', 'Kup3', 'Adown3', 'Aup3',
             'Ktrace', 'A2', 'gammadown3_bssnok', 'gammaup3_bssnok',
             'psi_bssnok', 'phi_bssnok', 'Adown3_bssnok', 'Aup3_bssnok',
             'dttau', 'betamag', 'hdown4', 'hup4', 'hmixed4', 'uup4',
             'udown4')


def pair_history_case(task):
    """All histories of length 2 over the algebraic keys, for both input
    styles (arrays / components): X requested right after Y on a fresh
    instance equals X requested first."""
    try:
        return _pair_history_case(task)
    except Exception:      # noqa: BLE001
        import traceback
        return {'bad': [('raised', task, traceback.format_exc()[-400:])],
                'pairs': 0}


def _pair_history_case(task):
    from aurel.core import AurelCore
    from aurel.finitedifference import FiniteDifference
    style, = task
    alphas = (0.5, 1.0, 3.0)
    betas = [(0.0, 0.0, 0.0), (-1.0, 0.0, 0.7), (0.7, 0.7, -1.0)]
    G, Ks = spd_menu()[:8] + spd_menu()[-3:], k_menu()
    pts = list(itertools.product(range(3), range(3), range(len(G)),
                                 range(4)))
    n = len(pts)
    shape = (n, 1, 1)
    a = np.array([alphas[p[0]] for p in pts]).reshape(shape)
    b = np.array([betas[p[1]] for p in pts]).T.reshape((3,) + shape)
    g = np.moveaxis(np.array([G[p[2]] for p in pts]), 0, -1).reshape(
        (3, 3) + shape)
    K = np.moveaxis(np.array([Ks[p[3]] for p in pts]), 0, -1).reshape(
        (3, 3) + shape)
    param = {'Nx': n, 'Ny': 1, 'Nz': 1, 'xmin': 0., 'ymin': 0., 'zmin': 0.,
             'dx': 1., 'dy': 1., 'dz': 1.}
    with quiet():
        fd = FiniteDifference(param, boundary='periodic', fd_order=2,
                              verbose=False)
    if style == 'arrays':
        inp = {'alpha': a, 'betaup3': b, 'gammadown3': g, 'Kdown3': K}
    else:
        inp = {'alpha': a}
        for (i, j), nm in zip([(0, 0), (0, 1), (0, 2), (1, 1), (1, 2),
                               (2, 2)], ['xx', 'xy', 'xz', 'yy', 'yz', 'zz']):
            inp['g' + nm] = g[i, j].copy()
            inp['k' + nm] = K[i, j].copy()
        for i, c in enumerate('xyz'):
            inp['beta' + c] = b[i].copy()

    def mk():
        with quiet():
            # (component style also runs with the printing option on)
            rel = AurelCore(fd, verbose=style != 'arrays',
                            clear_cache_every_nbr_calc=10 ** 9)
        rel.data.update(inp)
        rel.freeze_data()
        return rel
    first = {}
    for k in PAIR_KEYS:
        with quiet():
            first[k] = np.array(mk()[k], copy=True)
    bad = []
    npairs = 0
    for ky in PAIR_KEYS:
        for kx in PAIR_KEYS:
            if kx == ky:
                continue
            rel = mk()
            with quiet():
                rel[ky]
                v = np.asarray(rel[kx])
            npairs += 1
            f = first[kx]
            if v.shape != f.shape or not np.all(
                    np.abs(v - f) <= 1e-9 * (1 + np.abs(f))):
                bad.append((f'after-{ky}', kx, style))
                if len(bad) > 8:
                    return {'bad': bad, 'pairs': npairs}
    # and against the other input style
    return {'bad': bad, 'pairs': npairs,
            'first': first}


def curvature_symmetry_case(task):
    try:
        return _curvature_symmetry_case(task)
    except Exception:      # noqa: BLE001
        import traceback
        return {'task': list(task),
                'bad': [('raised', 'exception', traceback.format_exc()[-300:])]}


def _curvature_symmetry_case(task):
    """Algebraic symmetries of st_Riemann_down4 and of both constructions of
    st_Weyl_down4 on spatially UNIFORM data: every finite difference is
    exactly zero, so the outputs are pure pointwise algebra."""
    from aurel.core import AurelCore
    from aurel.finitedifference import FiniteDifference
    ia, ib, ig, ik, fluid = task
    alphas = (0.5, 1.0, 3.0)
    betas = [(0, 0, 0), (0.7, 0, 0), (-0.4, 0.3, 0.6)]
    G = [m for m in spd_menu() if np.linalg.cond(m) < 50][:4]
    K = k_menu()[ik]
    n = 4
    param = {'Nx': n, 'Ny': n, 'Nz': n, 'xmin': 0., 'ymin': 0., 'zmin': 0.,
             'dx': 1., 'dy': 1., 'dz': 1.}
    S = (n, n, n)
    ones = np.ones(S)
    inp = {'alpha': alphas[ia] * ones,
           'betaup3': np.array([b * ones for b in betas[ib]]),
           'gammadown3': np.array([[G[ig][i, j] * ones for j in range(3)]
                                   for i in range(3)]),
           'Kdown3': np.array([[K[i, j] * ones for j in range(3)]
                               for i in range(3)])}
    if fluid:
        inp.update({'rho0': 0.7 * ones, 'eps': 0.2 * ones,
                    'press': 0.15 * ones})
    bad = []
    for first in (None, 'st_Riemann_down4'):
        with quiet():
            fd = FiniteDifference(param, boundary='periodic', fd_order=2,
                                  verbose=False)
            rel = AurelCore(fd, verbose=False, Lambda=0.2)
            rel.data.update({k: v.copy() for k, v in inp.items()})
            rel.freeze_data()
            if first:
                rel[first]
            tensors = {'st_Weyl_down4' + ('/Riemann-cached' if first else
                                          '/from-EB'): rel['st_Weyl_down4'],
                       'st_Riemann_down4': rel['st_Riemann_down4']}
        for name, R in tensors.items():
            sc = max(np.abs(R).max(), 1e-3)
            tests = {
                'antisym-ab': R + np.einsum('abcd...->bacd...', R),
                'antisym-cd': R + np.einsum('abcd...->abdc...', R),
                'pair': R - np.einsum('abcd...->cdab...', R),
                'cyclic': (R + np.einsum('abcd...->acdb...', R)
                           + np.einsum('abcd...->adbc...', R))}
            for tn, T in tests.items():
                e = float(np.abs(T).max() / sc)
                if not e < 1e-11:
                    bad.append((name, tn, e))
    return {'task': list(task), 'bad': bad}


def safe_division_cases(run):
    from aurel.maths import safe_division
    n = 0
    arr = lambda dt, v: np.array(v, dtype=dt)    # noqa: E731
    dts = [np.int32, np.int64, np.float32, np.float64]
    scal = [('pyint', lambda v: int(v)), ('pyfloat', lambda v: float(v))]
    scal += [(f'np.{dt.__name__}', (lambda dt: lambda v: dt(v))(dt))
             for dt in dts]
    scal += [(f'0d-{dt.__name__}', (lambda dt: lambda v: np.array(
        v, dtype=dt))(dt)) for dt in dts]
    numer_vals = (6, -3, 0)
    denom_vals = (2, 0, -4)
    # scalar / scalar
    for (na, fa), (nb, fb) in itertools.product(scal, scal):
        for va, vb in itertools.product(numer_vals, denom_vals):
            a, b = fa(va), fb(vb)
            n += 1
            check_sd(run, safe_division, a, b, f"{na}/{nb}")
    # arrays (every dtype) with every zero pattern, and scalar operands
    pats = {'none': [2, -4, 5, 1], 'some': [2, 0, -4, 0],
            'all': [0, 0, 0, 0]}
    for dta, dtb in itertools.product(dts, dts):
        for pn, pv in pats.items():
            a = arr(dta, [6, -3, 0, 7])
            b = arr(dtb, pv)
            n += 1
            check_sd(run, safe_division, a, b,
                     f"arr-{dta.__name__}/arr-{dtb.__name__}:{pn}")
    for (ns, fs), dt in itertools.product(scal, dts):
        for pn, pv in pats.items():
            n += 2
            check_sd(run, safe_division, fs(6), arr(dt, pv),
                     f"{ns}/arr-{dt.__name__}:{pn}")
            for vb in denom_vals:
                check_sd(run, safe_division, arr(dt, pv), fs(vb),
                         f"arr-{dt.__name__}/{ns}")
    # tiny but non-zero divisors are divisors
    for dt in (np.float32, np.float64):
        tiny = [1e-30, -1e-30, 0.0, 1e-38] if dt == np.float32 else \
            [1e-30, -1e-200, 0.0, 1e-300]
        n += 2
        check_sd(run, safe_division, arr(dt, [1e-10, 1e-10, 1.0, 1e-20]),
                 arr(dt, tiny), f"tiny-divisor-{dt.__name__}")
        check_sd(run, safe_division, dt(1e-20), arr(dt, tiny),
                 f"tiny-divisor-scalar-{dt.__name__}")
        check_sd(run, safe_division, 1e-20, float(tiny[0]),
                 "tiny-divisor-pyfloat")
    # signed zeros and broadcasting pairs
    check_sd(run, safe_division, np.array([1.0, -1.0, 0.0]),
             np.array([0.0, -0.0, -0.0]), "signed-zero")
    for shp_a, shp_b in (((3, 5), (5,)), ((5,), ()), ((3, 3, 5), (5,)),
                         ((3, 1, 5), (4, 5)), ((2, 3, 4), (2, 3, 4))):
        a = np.arange(1, 1 + int(np.prod(shp_a)), dtype=float).reshape(shp_a)
        b = np.arange(int(np.prod(shp_b)) if shp_b else 1,
                      dtype=float).reshape(shp_b) - 2.0
        n += 1
        check_sd(run, safe_division, a, b, f"broadcast{shp_a}/{shp_b}")
    return n


def check_sd(run, fn, a, b, tag):
    a0 = np.array(a, copy=True)
    b0 = np.array(b, copy=True)
    with warnings.catch_warnings():
        warnings.simplefilter('error')
        try:
            c = fn(a, b)
        except Warning as w:
            run.violation("C08:safe_division:warning",
                          f"{tag}: a={a!r} b={b!r}: {w!r}"[:300],
                          {'a': repr(a), 'b': repr(b)})
            return
        except Exception as ex:     # noqa: BLE001
            run.violation("C08:safe_division:raised",
                          f"{tag}: a={a!r} b={b!r}: {ex!r}"[:300],
                          {'a': repr(a), 'b': repr(b)})
            return
    af, bf = np.asarray(a0, dtype=float), np.asarray(b0, dtype=float)
    with np.errstate(all='ignore'):
        want = np.where(bf != 0, af / np.where(bf != 0, bf, 1.0), 0.0)
    got = np.asarray(c, dtype=float)
    ok = (got.shape == want.shape and np.all(np.isfinite(got))
          and np.allclose(got, want, rtol=2e-6, atol=0)
          and np.all(got[np.broadcast_to(bf == 0, want.shape)] == 0))
    if not ok:
        run.violation(f"C08:safe_division:wrong:{tag.split(':')[0]}",
                      f"{tag}: a={a!r} b={b!r} -> {c!r}, expected {want!r}"
                      [:300], {'a': repr(a), 'b': repr(b)})
    if not (np.array_equal(np.asarray(a), a0)
            and np.array_equal(np.asarray(b), b0)):
        run.violation("C08:safe_division:argument-modified", tag, {})


def main(tier):
    run = runner.Run(PID, tier, "exploration")
    n1 = runner.guard(run, 'C08:maths:raised', maths_product, run)
    tasks = [(np.float64, 'line'), (np.float64, 'box'), (np.float32, 'line')]
    res = runner.pmap(core_identities, tasks, workers=3)
    n2 = 0
    for t, r in zip(tasks, res):
        n2 += r['checks'] * r['points']
        run.seen(r['task'])
        for b in r['bad']:
            run.violation(f"C08:identity:{b[0]}:{r['task'][0]}",
                          f"{r['task']}: {b}"[:400],
                          {'task': r['task'], 'identity': b[0]})
    for r in runner.pmap(int_dtype_case, [0], workers=1):
        n2 += r['keys'] * r['points']
        run.count('int_dtype_keys', r['keys'])
        for b in r['bad']:
            run.violation(f"C08:{b[0]}:{b[1]}",
                          f"integer-valued inputs typed int64 vs float64: "
                          f"{b}"[:400], {'int_dtype': 1, 'key': b[1]})
    pres = runner.pmap(pair_history_case, [('arrays',), ('components',)],
                       workers=2)
    for r in pres:
        n2 += r['pairs']
        run.count('length2_histories', r['pairs'])
        for b in r['bad']:
            run.violation(f"C08:history:{b[0]}:{b[1]}",
                          f"{b}"[:400], {'pair': [str(x) for x in b[:3]]})
    if all('first' in r for r in pres):
        for k in PAIR_KEYS:
            fa, fc = pres[0]['first'][k], pres[1]['first'][k]
            # pointwise scale: badly conditioned metrics of the menu
            sc = np.abs(fa).max(axis=tuple(range(fa.ndim - 3)),
                                keepdims=True) + 1e-300
            d = float((np.abs(fa - fc) / sc).max()) if fa.shape == fc.shape \
                else float('inf')
            if not d <= 1e-9:
                run.violation(f"C08:input-style:{k}",
                              f"{k} differs by {d:.2e} (relative, pointwise) "
                              "between array-style and component-style "
                              "inputs holding the same values", {'key': k})
    ctasks = [(ia, ib, ig, ik, fl) for ia in range(3) for ib in range(3)
              for ig in range(4) for ik in range(1, 4) for fl in (False, True)]
    for t, r in zip(ctasks, runner.pmap(curvature_symmetry_case, ctasks,
                                        chunksize=8)):
        for b in r['bad']:
            run.violation(f"C08:symmetry:{b[0]}:{b[1]}",
                          f"uniform data point {t}: {b}", {'sym': list(t)})
    n2 += len(ctasks) * 8
    n3 = runner.guard(run, 'C08:safe_division:block-raised',
                      safe_division_cases, run)
    run.sample({'alphabet point': {'alpha': 0.5, 'beta': [-1, 0, 0.7],
                                   'gamma': 'SPD menu #7 (cond ~1e5)',
                                   'K': 'menu #3'},
                'identities': ['gammaup3.gammadown3=1', 'gdet both branches',
                               'n.n=-1', 'det(conformal metric)=1', '...']})
    run.sample({'product grid': 'all 3^10 symmetric 4x4 integer matrices '
                                'with entries in {-1,0,2}'})
    run.assume("closed-form determinant/adjugate are polynomials of degree "
               "<= 2 per variable: agreement on {-1,0,2}^k is agreement as "
               "polynomials")
    run.assume("tolerances scale with cond(gamma) (1e-12*cond for float64)")
    return run.finish({
        'evaluations': n1 + n2 + n3,
        'distinct_nontrivial': n1 + n3 + 3 * 7776,
        'rule': "maths: one case per integer matrix of the product grid / "
                "basis tensor; identities: one case per (alphabet point, "
                "identity); safe_division: one case per operand-kind pair x "
                "zero pattern.  All distinct by construction.",
        'maths_cases': n1, 'identity_point_checks': n2,
        'safe_division_cases': n3, 'exhaustive': True,
    })


def replay(rec):
    print(rec)
    run = runner.Run(PID, 'quick', 'exploration')
    maths_product(run)
    safe_division_cases(run)
    bad = []
    for t in [(np.float64, 'line')]:
        bad += core_identities(t)['bad'][:5]
    bad += int_dtype_case(0)['bad'][:5]
    print(bad)
    return 1 if (run.violations or bad) else 0
