"""Harness-side control seams (no source hooks): the order in which the file
system enumerates files, as seen by aurel.reading."""
import contextlib
import glob as _real_glob
import os as _real_os


def permute(seq, mode):
    seq = sorted(seq)
    if mode == 'sorted':
        return seq
    if mode == 'reversed':
        return seq[::-1]
    if mode == 'rotated':
        k = len(seq) // 2
        return seq[k:] + seq[:k]
    raise ValueError(mode)


class _GlobProxy:
    def __init__(self, mode):
        self._mode = mode

    def glob(self, *a, **k):
        return permute(_real_glob.glob(*a, **k), self._mode)

    def __getattr__(self, name):
        return getattr(_real_glob, name)


class _OsProxy:
    def __init__(self, mode):
        self._mode = mode

    def listdir(self, *a, **k):
        return permute(_real_os.listdir(*a, **k), self._mode)

    def __getattr__(self, name):
        return getattr(_real_os, name)


@contextlib.contextmanager
def file_order(mode='sorted'):
    """Whatever name in aurel.reading's namespace is bound to the glob / os
    module (or to glob.glob / os.listdir themselves) is rebound to a proxy
    for the duration; a name that is not there (the code enumerates files
    some other way) is left alone: the enumeration order is then the real
    one - poorer coverage, never a wrong verdict."""
    from aurel import reading
    saved = {}
    for name, val in list(vars(reading).items()):
        if val is _real_glob:
            saved[name], new = val, _GlobProxy(mode)
        elif val is _real_os:
            saved[name], new = val, _OsProxy(mode)
        elif val is _real_glob.glob:
            saved[name], new = val, _GlobProxy(mode).glob
        elif val is _real_os.listdir:
            saved[name], new = val, _OsProxy(mode).listdir
        else:
            continue
        setattr(reading, name, new)
    try:
        yield
    finally:
        for name, val in saved.items():
            setattr(reading, name, val)
