"""Harness-side control seams (no source hooks): the order in which the file
system enumerates files, as seen by aurel.reading."""
import contextlib
import glob as _real_glob
import os as _real_os


def permute(seq, mode):
    seq = sorted(seq)
    if mode == 'sorted':
        return seq
    if mode == 'reversed':
        return seq[::-1]
    if mode == 'rotated':
        k = len(seq) // 2
        return seq[k:] + seq[:k]
    raise ValueError(mode)


class _GlobProxy:
    def __init__(self, mode):
        self._mode = mode

    def glob(self, *a, **k):
        return permute(_real_glob.glob(*a, **k), self._mode)

    def __getattr__(self, name):
        return getattr(_real_glob, name)


class _OsProxy:
    def __init__(self, mode):
        self._mode = mode

    def listdir(self, *a, **k):
        return permute(_real_os.listdir(*a, **k), self._mode)

    def __getattr__(self, name):
        return getattr(_real_os, name)


@contextlib.contextmanager
def file_order(mode='sorted'):
    from aurel import reading
    old = reading.glob, reading.os
    reading.glob, reading.os = _GlobProxy(mode), _OsProxy(mode)
    try:
        yield
    finally:
        reading.glob, reading.os = old
