"""E1 - explicit-state breadth-first explorer over real objects.

A *system factory* returns a fresh object with
    apply(op)  -> list of (signature, what) violations of that transition
                  (result checked against the reference model + invariants)
    canon()    -> hashable canonical form of the state reached
    outcome()  -> hashable description of what the last transition did
                  (vacuity guard: counted, never judged)
States are identified with a history (tuple of ops); a state is rebuilt by
replaying its history on a fresh system (live objects alias numpy views /
files and are not deep-copied).  Level-synchronous BFS; every (state, op)
pair of a level is executed (in the worker pool) and checked; a successor
whose canonical form was seen before is not extended.
"""
import time

from . import runner

_FACTORY = None
_OPS = None


def _expand(item):
    hist, op_indices = item
    out = []
    for oi in op_indices:
        sysm = _FACTORY()
        try:
            for h in hist:
                sysm.apply(_OPS[h], checked=False)
            viol = sysm.apply(_OPS[oi], checked=True)
            out.append((oi, sysm.canon(), viol, sysm.outcome()))
        finally:
            if hasattr(sysm, 'close'):
                sysm.close()
    return out


def bfs(factory, ops, depth, run, label="", budget_s=None, seen=None,
        op_filter=None, group=8, keep_outcome_hist=False):
    """Explore all histories over `ops` up to `depth`.  Returns stats."""
    global _FACTORY, _OPS
    _FACTORY, _OPS = factory, list(ops)
    t0 = time.time()
    s0 = factory()
    c0 = s0.canon()
    if hasattr(s0, 'close'):
        s0.close()
    seen = {} if seen is None else seen
    seen.setdefault(c0, ())
    frontier = [()]
    stats = {'states': len(seen), 'transitions': 0, 'pruned': 0,
             'depth_completed': 0, 'outcomes': set(), 'capped': False,
             'outcome_hist': {}}
    nops = len(_OPS)
    # determinism self-check: the same (history, op) pairs executed twice,
    # in two separate child processes, must reach the same canonical states
    # with the same outcomes; otherwise nothing this run reports is trusted
    probe = ((), list(range(min(3, nops))))
    a = runner.in_child(_expand, probe)
    b = runner.in_child(_expand, probe)
    if [(x[0], x[1], x[3]) for x in a] != [(x[0], x[1], x[3]) for x in b]:
        raise runner.HarnessFault(
            f"{label}: harness nondeterministic - the same operations gave "
            "different states/outcomes in two runs")
    if depth >= 2 and a:
        probe2 = ((a[0][0],), list(range(min(2, nops))))
        a2 = runner.in_child(_expand, probe2)
        b2 = runner.in_child(_expand, probe2)
        if [(x[0], x[1], x[3]) for x in a2] != [(x[0], x[1], x[3])
                                                 for x in b2]:
            raise runner.HarnessFault(
                f"{label}: harness nondeterministic at depth 2")
    for d in range(1, depth + 1):
        items = []
        for hist in frontier:
            idx = [i for i in range(nops)
                   if op_filter is None or op_filter(hist, _OPS[i])]
            for k in range(0, len(idx), group):
                items.append((hist, idx[k:k + group]))
        if budget_s is not None and time.time() - t0 > budget_s:
            stats['capped'] = True
            run.cap(f"{label}: time budget reached before level {d}; "
                    f"complete to depth {d - 1}")
            break
        results = runner.pmap(_expand, items)
        nxt = []
        for (hist, _), res in zip(items, results):
            for oi, canon, viol, outcome in res:
                stats['transitions'] += 1
                h2 = hist + (oi,)
                if outcome not in stats['outcomes']:
                    stats['outcomes'].add(outcome)
                    stats['outcome_hist'][outcome] = h2
                for sig, what in viol:
                    run.violation(sig, what,
                                  {'label': label,
                                   'history': [repr(_OPS[i]) for i in h2],
                                   'history_idx': list(h2)})
                if canon in seen:
                    stats['pruned'] += 1
                else:
                    seen[canon] = h2
                    nxt.append(h2)
        stats['states'] = len(seen)
        stats['depth_completed'] = d
        frontier = nxt
        if not frontier:
            break
    stats['distinct_outcomes'] = len(stats.pop('outcomes'))
    if not keep_outcome_hist:
        stats.pop('outcome_hist')
    stats['wall_s'] = round(time.time() - t0, 2)
    return stats


def replay_history(factory, ops, idx):
    """Plain re-execution of one history (no explorer, no pruning)."""
    sysm = factory()
    allv = []
    for i in idx:
        v = sysm.apply(ops[i], checked=True)
        print(f"  {ops[i]!r}: {len(v)} violation(s)")
        for sig, what in v:
            print("     ", sig, what)
        allv += v
    if hasattr(sysm, 'close'):
        sysm.close()
    return allv
