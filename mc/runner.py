"""Shared plumbing for every check: seed/tier, violations, known findings,
replay artefacts, evidence files, worker pool.

Nothing here decides a property; it only records what the check modules
enumerated and found.
"""
import hashlib
import json
import os
import sys
import time
import traceback

VERIF = os.path.dirname(os.path.dirname(os.path.abspath(__file__)))
REPO = os.environ.get("VERIF_REPO", "/repo")
_MUT = os.path.realpath(REPO) != "/repo"
# demonstration runs against a mutant worktree never touch the real evidence
EVIDENCE_DIR = os.path.join(VERIF, "evidence_mut" if _MUT else "evidence")
REPLAY_DIR = os.path.join(VERIF, "replays_mut" if _MUT else "replays")
if os.environ.get("VERIF_CHILD") == "1":
    # child of a thorough run (other PYTHONHASHSEED): never overwrite the
    # parent's evidence
    EVIDENCE_DIR = os.path.join(VERIF, "evidence_child")
FINDINGS_FILE = os.path.join(VERIF, "known_findings.json")
SCHEMA_FILE = os.path.join(VERIF, "schema", "EVIDENCE.schema.json")


def seed():
    try:
        return int(os.environ.get("VERIF_SEED", "0"))
    except ValueError:
        return 0


def scratch_root():
    """Per-run scratch directory on tmpfs; removed by the caller."""
    import tempfile
    base = "/dev/shm" if os.path.isdir("/dev/shm") and os.access(
        "/dev/shm", os.W_OK) else tempfile.gettempdir()
    return tempfile.mkdtemp(prefix="aurelverif_", dir=base)


def digest(*objs):
    """Stable short digest of arrays / nested python data."""
    import numpy as np
    h = hashlib.blake2b(digest_size=12)

    def feed(o):
        if isinstance(o, np.ndarray):
            h.update(str(o.dtype).encode())
            h.update(str(o.shape).encode())
            h.update(np.ascontiguousarray(o).tobytes())
        elif isinstance(o, (list, tuple)):
            h.update(b"[")
            for x in o:
                feed(x)
            h.update(b"]")
        elif isinstance(o, dict):
            h.update(b"{")
            for k in sorted(o, key=repr):
                feed(repr(k))
                feed(o[k])
            h.update(b"}")
        else:
            h.update(repr(o).encode())
    for o in objs:
        feed(o)
    return h.hexdigest()


def _jsonable(o):
    import numpy as np
    if isinstance(o, dict):
        return {str(k): _jsonable(v) for k, v in o.items()}
    if isinstance(o, (list, tuple, set, frozenset)):
        return [_jsonable(v) for v in o]
    if isinstance(o, np.ndarray):
        if o.size <= 16:
            return o.tolist()
        return {"ndarray": list(o.shape), "dtype": str(o.dtype),
                "digest": digest(o)}
    if isinstance(o, (np.integer,)):
        return int(o)
    if isinstance(o, (np.floating,)):
        return float(o)
    if isinstance(o, (np.bool_,)):
        return bool(o)
    if isinstance(o, complex):
        return [o.real, o.imag]
    if isinstance(o, (str, int, float, bool)) or o is None:
        return o
    return repr(o)


class Run:
    """One execution of one check."""

    def __init__(self, pid, tier, level):
        self.pid = pid
        self.tier = tier
        self.level = level
        self.seed = seed()
        self.t0 = time.time()
        self.violations = {}      # signature -> (what, replay path)
        self.known = {}           # signature -> what
        self.counters = {}
        self.distinct = set()
        self.samples = []
        self.assumptions = []
        self.notes = []
        self.capped = []
        self._findings = self._load_findings()

    # ---- known findings ---------------------------------------------------
    def _load_findings(self):
        try:
            with open(FINDINGS_FILE) as f:
                items = json.load(f)
        except FileNotFoundError:
            return {}
        out = {}
        for it in items.get("findings", []):
            if it.get("property") == self.pid and it.get("status") == "open":
                out[it["signature"]] = it
        return out

    # ---- recording --------------------------------------------------------
    def count(self, name, n=1):
        self.counters[name] = self.counters.get(name, 0) + n

    def seen(self, *objs):
        self.distinct.add(digest(*objs))

    def sample(self, obj, limit=6):
        if len(self.samples) < limit:
            self.samples.append(_jsonable(obj))

    def assume(self, text):
        if text not in self.assumptions:
            self.assumptions.append(text)

    def note(self, text):
        self.notes.append(text)
        print(f"[{self.pid}] {text}", flush=True)

    def cap(self, text):
        self.capped.append(text)
        print(f"[{self.pid}] CAP: {text}", flush=True)

    def violation(self, signature, what, case=None):
        """Record a violation.  `signature` is stable and specific (see
        DESIGN 10.3); `case` is the minimal replayable description."""
        if signature in self._findings:
            if signature not in self.known:
                self.known[signature] = self._findings[signature].get(
                    "what", what)
            return False
        if signature in self.violations:
            return True
        os.makedirs(os.path.join(REPLAY_DIR, self.pid), exist_ok=True)
        sig = hashlib.blake2b(signature.encode(), digest_size=6).hexdigest()
        path = os.path.join(REPLAY_DIR, self.pid, f"{sig}.json")
        with open(path, "w") as f:
            json.dump({"property": self.pid, "signature": signature,
                       "what": what, "seed": self.seed, "tier": self.tier,
                       "case": _jsonable(case)}, f, indent=1)
        self.violations[signature] = (what, path)
        print(f"[{self.pid}] violation {signature}: {what}", flush=True)
        return True

    # ---- finishing --------------------------------------------------------
    def finish(self, coverage):
        cov = dict(coverage)
        cov.setdefault("samples", self.samples or [{"note": "no sample"}])
        cov.setdefault("counters", self.counters)
        if self.capped:
            cov["caps_hit"] = self.capped
            cov["exhaustive"] = False
        if self.notes:
            cov["notes"] = self.notes[-40:]
        cov["known_findings_seen"] = sorted(self.known)
        ev = {"property_id": self.pid, "tier": self.tier, "seed": self.seed,
              "level": self.level, "coverage": _jsonable(cov),
              "assumptions": self.assumptions,
              "wall_s": round(time.time() - self.t0, 3),
              "violations": len(self.violations)}
        os.makedirs(EVIDENCE_DIR, exist_ok=True)
        path = os.path.join(EVIDENCE_DIR, f"{self.pid}.json")
        with open(path, "w") as f:
            json.dump(ev, f, indent=1)
        validate_evidence(ev)
        for sig, what in sorted(self.known.items()):
            print(f"KNOWN-FINDING: property={self.pid} {sig} {what}",
                  flush=True)
        for sig, (what, rp) in sorted(self.violations.items()):
            print(f"VIOLATION property={self.pid} replay={rp}", flush=True)
        print(f"[{self.pid}] tier={self.tier} seed={self.seed} "
              f"wall={ev['wall_s']}s violations={len(self.violations)} "
              f"known={len(self.known)} evidence={path}", flush=True)
        return 1 if self.violations else 0


def validate_evidence(ev):
    try:
        import jsonschema
        with open(SCHEMA_FILE) as f:
            schema = json.load(f)
        jsonschema.validate(ev, schema)
    except ImportError:
        for k in ("property_id", "tier", "seed", "level", "coverage",
                  "wall_s"):
            assert k in ev, k


def guard(run, signature, fn, *args, default=0):
    """Run a block that calls into aurel from the parent process: an
    exception escaping it is a violation of the property (the library raised
    where it should have returned), not a fault of the harness."""
    try:
        return fn(*args)
    except HarnessFault:
        raise
    except Exception:      # noqa: BLE001
        run.violation(signature, "exception: "
                      + traceback.format_exc()[-500:], {'block': signature})
        return default


class HarnessFault(Exception):
    """Raised when the harness itself cannot be trusted (exit code 2)."""


# ---- worker pool ------------------------------------------------------------
_POOL_FN = None


def _pool_call(args):
    i, item = args
    try:
        return i, _POOL_FN(item), None
    except Exception:          # noqa: BLE001 - reported to the parent
        return i, None, traceback.format_exc()


def pmap(fn, items, workers=None, chunksize=1):
    """Ordered parallel map with a fork-once pool.  An exception in a worker
    is a harness fault unless the check catches it itself."""
    global _POOL_FN
    items = list(items)
    if workers is None:
        workers = int(os.environ.get("VERIF_WORKERS", "16"))
    workers = max(1, min(workers, len(items)))
    if workers == 1:
        return [fn(it) for it in items]
    import multiprocessing as mp
    _POOL_FN = fn
    ctx = mp.get_context("fork")
    out = [None] * len(items)
    with ctx.Pool(workers) as pool:
        # a worker killed from outside (out of memory) loses its task and
        # the pool would wait for ever: the pool replaces it under a new
        # pid, which is how its death is noticed here
        pids = {p.pid for p in pool._pool}
        it = pool.imap_unordered(_pool_call, list(enumerate(items)),
                                 chunksize)
        done = 0
        while done < len(items):
            try:
                # (with chunksize > 1 the pool hands back a plain generator
                # without a timeout: small fast items, no watch)
                i, res, err = (it.next(timeout=20) if hasattr(it, 'next')
                               else next(it))
            except mp.TimeoutError:
                if not pids <= {p.pid for p in pool._pool}:
                    pool.terminate()
                    raise HarnessFault("a worker process died (killed "
                                       "from outside, e.g. out of memory)")
                continue
            if err is not None:
                pool.terminate()
                raise HarnessFault("worker failed:\n" + err)
            out[i] = res
            done += 1
    return out


def in_child(fn, *args):
    """Run fn(*args) in a forked child and return its result.  The parent of
    a worker pool must never touch HDF5 itself: forking a process that has
    used the HDF5 library deadlocks the children."""
    global _POOL_FN
    import multiprocessing as mp
    _POOL_FN = lambda a: fn(*a)      # noqa: E731
    with mp.get_context("fork").Pool(1) as pool:
        i, res, err = pool.apply(_pool_call, ((0, args),))
    if err is not None:
        raise HarnessFault("child failed:\n" + err)
    return res


def hashseed_children(pid, run, seeds=("1", "7")):
    """The string-hash seed is an environment answer (set/dict iteration
    order): repeat the quick exploration in child processes under other
    seeds and fold their verdicts into this run."""
    import subprocess
    out = []
    if os.environ.get("VERIF_CHILD") == "1":
        return out
    for sv in seeds:
        env = dict(os.environ, PYTHONHASHSEED=sv, VERIF_CHILD="1")
        p = subprocess.run([sys.executable, os.path.join(VERIF, "check"), pid,
                            "--tier", "quick"], env=env, capture_output=True,
                           text=True)
        sigs = [ln.split("violation ")[1].split(": ")[0]
                for ln in p.stdout.splitlines() if "] violation " in ln]
        out.append({"PYTHONHASHSEED": sv, "exit": p.returncode,
                    "violations": sigs[:10]})
        if p.returncode == 2:
            raise HarnessFault(f"hash-seed child {sv} failed:\n"
                               + p.stdout[-800:])
        for ln in p.stdout.splitlines():
            if "] violation " in ln:
                sig = ln.split("violation ")[1].split(": ")[0]
                run.violation(sig, f"(PYTHONHASHSEED={sv}) " + ln[:300],
                              {"hashseed": sv})
    return out


def import_aurel():
    """Import aurel from $VERIF_REPO/src (default /repo/src) and assert it."""
    src = os.path.join(REPO, "src")
    if sys.path[0] != src:
        sys.path.insert(0, src)
    import aurel
    got = os.path.realpath(os.path.dirname(aurel.__file__))
    want = os.path.realpath(os.path.join(src, "aurel"))
    if got != want:
        raise HarnessFault(f"aurel imported from {got}, expected {want}")
    return aurel
