#!/venv/bin/python
"""Regenerates MANIFEST.json from the table below (kept in one place so the
manifest stays valid while checks are being added)."""
import json, os
HERE = os.path.dirname(os.path.abspath(__file__))
BASE = ("cd /repo && /venv/bin/python -m pytest -ra -q -p no:cacheprovider "
        "--timeout=900 --continue-on-collection-errors")
from manifest_table import CHECKS, NOT_APPLICABLE
props = [json.loads(l)['id'] for l in open(os.path.join(HERE, 'properties.jsonl'))]
checks = []
for pid in props:
    if pid in CHECKS:
        c = CHECKS[pid]
        checks.append({
            "property_id": pid,
            "quick_cmd": f"./check {pid} --tier quick",
            "thorough_cmd": f"./check {pid} --tier thorough",
            "evidence_file": f"/verif/evidence/{pid}.json",
            "replay_cmd_template": f"./check {pid} --replay {{path}}",
            "engine": c["engine"],
            "level_claimed": {"category": c["level"], "text": c["text"],
                              "design_ref": c["design_ref"]},
            "level_note": c["note"],
            "technique": c["technique"],
        })
na = [{"property_id": p, "reason": NOT_APPLICABLE.get(p, "check not built yet in this session; see DESIGN.md section 5 for the planned bounded-exhaustive check")}
      for p in props if p not in CHECKS]
man = {
    "version": 1,
    "setup_cmd": "cd /verif && /venv/bin/python -m refs.selftest",
    "hooks": {"guard": "AUREL_VERIF",
              "enable": "not needed: every seam is harness-side (DESIGN.md section 3); checks import /repo/src directly (editable install)",
              "baseline_off_cmd": BASE,
              "source_commits": [],
              "add_only": True},
    "engines": [
        {"name": "E1-explorer", "path": "/verif/mc/explorer.py",
         "serves_properties": [p for p in props if p in CHECKS and CHECKS[p]["engine"] == "E1-explorer"],
         "kind_free_text": "explicit-state breadth-first exploration of operation sequences on the real objects, canonical-state pruning, every transition checked against a reference model"},
        {"name": "E2-product", "path": "/verif/mc/runner.py",
         "serves_properties": [p for p in props if p in CHECKS and CHECKS[p]["engine"] == "E2-product"],
         "kind_free_text": "exhaustive enumeration of a finite product / determining set of inputs and configurations against an independent reference model"},
    ],
    "checks": checks,
    "not_applicable": na,
    "notes": "See DESIGN.md. All checks: ./check <id> --tier quick|thorough; known findings in known_findings.json.",
}
json.dump(man, open(os.path.join(HERE, 'MANIFEST.json'), 'w'), indent=1)
import jsonschema
jsonschema.validate(man, json.load(open(os.path.join(HERE, 'schema', 'MANIFEST.schema.json'))))
print("MANIFEST ok:", len(checks), "checks,", len(na), "not_applicable")
